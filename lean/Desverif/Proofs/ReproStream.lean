/-
C04: the random stream is only ever consumed from the front.  `Drops s s'` = the stream of `s'` is what is
left of the stream of `s` after dropping some number of leading elements.  The only function of the model that
reads or changes `stream` is `Sim.pop` (head / tail); every stage of the kernel is a composition of `pop`s and
stream-preserving steps, in dispatch order.
-/
import Desverif.Model.Repro
namespace Repro

def Drops (s s' : Sim) : Prop := ∃ k, s'.stream = s.stream.drop k

theorem Drops.refl (s : Sim) : Drops s s := ⟨0, rfl⟩

theorem Drops.of_eq {s s' : Sim} (h : s'.stream = s.stream) : Drops s s' := ⟨0, by simp [h]⟩

theorem Drops.trans {s1 s2 s3 : Sim} (h1 : Drops s1 s2) (h2 : Drops s2 s3) : Drops s1 s3 := by
  obtain ⟨k, hk⟩ := h1
  obtain ⟨j, hj⟩ := h2
  exact ⟨k + j, by rw [hj, hk, List.drop_drop]⟩

theorem pop_stream (s : Sim) : s.pop.2.stream = s.stream.drop 1 := by
  unfold Sim.pop; cases s.stream <;> simp

theorem pop_value (s : Sim) : s.pop.1 = s.stream.headD 0 := by
  unfold Sim.pop; cases s.stream <;> simp

theorem Drops.pop (s : Sim) : Drops s s.pop.2 := ⟨1, pop_stream s⟩

@[simp] theorem log_stream (s : Sim) (p w who peer : String) (args : List Nat) : (s.log p w who peer args).stream = s.stream := rfl
@[simp] theorem push_stream (s : Sim) (ev : KEvent) (t : Nat) : (s.push ev t).stream = s.stream := rfl
@[simp] theorem bump_stream (s : Sim) : s.bump.stream = s.stream := rfl
@[simp] theorem allocSleep_stream (s : Sim) (n : Nat) : (s.allocSleep n).stream = s.stream := rfl
@[simp] theorem updMod_stream (s : Sim) (mi : Nat) (f : ModRt → ModRt) : (s.updMod mi f).stream = s.stream := rfl
@[simp] theorem setFes_stream (s : Sim) (f : FES.State) : (s.setFes f).stream = s.stream := rfl

@[simp] theorem schedule_stream (s : Sim) (ev : KEvent) (t : Nat) : (s.schedule ev t).stream = s.stream := by
  unfold Sim.schedule; cases FES.add s.fes t s.evs.length <;> rfl

theorem stepSync_drops (net : Net) (s : Sim) (mi : Nat) (path : String) (ttl : Nat) (who : String) (st : Step) :
    Drops s (stepSync net s mi path ttl who st) := by
  cases st with
  | draw => exact ⟨1, by simp [stepSync, pop_stream]⟩
  | draw32 => exact ⟨1, by simp [stepSync, pop_stream]⟩
  | send dst kind =>
    simp only [stepSync]
    by_cases h0 : ttl = 0
    · simp only [h0, if_true]; exact Drops.refl s
    · simp only [h0, if_false]
      cases findLink net.links path dst with
      | none => exact Drops.refl s
      | some l =>
        cases modIndex s.mods dst with
        | none => exact Drops.refl s
        | some di =>
          simp only []
          cases l.chan with
          | none => exact Drops.of_eq rfl
          | some lj =>
            obtain ⟨lat, jit⟩ := lj
            simp only []
            by_cases hj : jit = 0
            · simp only [hj, if_true]; exact Drops.of_eq rfl
            · simp only [hj, if_false]; exact ⟨1, by simp [pop_stream]⟩
  | sched d kind =>
    simp only [stepSync]
    by_cases h0 : ttl = 0
    · simp only [h0, if_true]; exact Drops.refl s
    · simp only [h0, if_false]; exact Drops.of_eq rfl
  | spawn t => exact Drops.refl s
  | sleep d => exact Drops.refl s
  | sel ds => exact Drops.refl s

theorem runHandler_drops (net : Net) (mi : Nat) (path : String) (ttl : Nat) (steps : List Step) :
    ∀ s : Sim, Drops s (runHandler net s mi path ttl steps) := by
  induction steps with
  | nil => intro s; exact Drops.refl s
  | cons st r ih =>
    intro s
    cases st with
    | spawn tag =>
      simp only [runHandler]
      cases findTask net.tasks tag with
      | none => exact ih s
      | some prog => exact (Drops.of_eq rfl).trans (ih _)
    | draw => exact (stepSync_drops net s mi path ttl "H" _).trans (ih _)
    | draw32 => exact (stepSync_drops net s mi path ttl "H" _).trans (ih _)
    | send d k => exact (stepSync_drops net s mi path ttl "H" _).trans (ih _)
    | sched d k => exact (stepSync_drops net s mi path ttl "H" _).trans (ih _)
    | sleep d => exact (stepSync_drops net s mi path ttl "H" _).trans (ih _)
    | sel ds => exact (stepSync_drops net s mi path ttl "H" _).trans (ih _)

theorem selPoll_drops (s : Sim) (mi : Nat) (path tag : String) (ti : Nat) (ss : List Sl) :
    Drops s (selPoll s mi path tag ti ss).1 := by
  unfold selPoll
  simp only []
  cases s.pop.2.mods[mi]? with
  | none => exact Drops.pop s
  | some m =>
    simp only []
    split
    · exact (Drops.pop s).trans (Drops.of_eq rfl)
    · exact (Drops.pop s).trans (Drops.of_eq rfl)

theorem runTask_drops (net : Net) (a : Ambient) (mi : Nat) (path tag : String) (ti ttl : Nat) (prog : List Step) :
    ∀ s : Sim, Drops s (runTask net a mi path tag ti ttl s prog) := by
  induction prog with
  | nil => intro s; exact Drops.of_eq rfl
  | cons st r ih =>
    intro s
    cases st with
    | sleep d =>
      simp only [runTask]
      by_cases hd : d = 0
      · simp only [hd, if_true]; exact (Drops.of_eq rfl).trans (ih _)
      · simp only [hd, if_false]; exact Drops.of_eq rfl
    | sel ds =>
      simp only [runTask]
      have hp := selPoll_drops (s.allocSleep ds.length) mi path tag ti (mkSleeps a s.now s.nextSleep ds)
      generalize selPoll (s.allocSleep ds.length) mi path tag ti (mkSleeps a s.now s.nextSleep ds) = res at hp
      obtain ⟨s', ss', w⟩ := res
      have h0 : Drops s s' := (Drops.of_eq (s := s) (s' := s.allocSleep ds.length) rfl).trans hp
      cases w with
      | some w => exact h0.trans (ih _)
      | none => exact h0.trans (Drops.of_eq rfl)
    | spawn t => simp only [runTask]; exact ih _
    | draw => simp only [runTask]; exact (stepSync_drops net s mi path ttl tag _).trans (ih _)
    | draw32 => simp only [runTask]; exact (stepSync_drops net s mi path ttl tag _).trans (ih _)
    | send d k => simp only [runTask]; exact (stepSync_drops net s mi path ttl tag _).trans (ih _)
    | sched d k => simp only [runTask]; exact (stepSync_drops net s mi path ttl tag _).trans (ih _)

theorem pollTask_drops (net : Net) (a : Ambient) (s : Sim) (mi : Nat) (path : String) (ti : Nat) :
    Drops s (pollTask net a s mi path ti) := by
  unfold pollTask
  cases (s.mods[mi]?).bind (·.tasks[ti]?) with
  | none => exact Drops.refl s
  | some t =>
    simp only []
    cases t.wait with
    | run => exact runTask_drops ..
    | sleeping sl =>
      simp only []
      by_cases hd : s.now < sl.deadline
      · simp only [hd, if_true]; exact Drops.refl s
      · simp only [hd, if_false]; exact (Drops.of_eq rfl).trans (runTask_drops ..)
    | selecting ss =>
      simp only []
      have hp := selPoll_drops s mi path t.tag ti ss
      generalize selPoll s mi path t.tag ti ss = res at hp
      obtain ⟨s', ss', w⟩ := res
      cases w with
      | some w => exact hp.trans (runTask_drops ..)
      | none => exact hp.trans (Drops.of_eq rfl)

theorem schedLoop_drops (net : Net) (a : Ambient) (mi : Nat) (path : String) (fuel : Nat) :
    ∀ s : Sim, Drops s (schedLoop net a mi path fuel s) := by
  induction fuel with
  | zero => intro s; exact Drops.refl s
  | succ n ih =>
    intro s
    simp only [schedLoop]
    cases s.mods[mi]? with
    | none => exact Drops.refl s
    | some m =>
      simp only []
      cases nextTask (m.tick + 1) m.localq m.inject with
      | none => exact Drops.of_eq rfl
      | some r =>
        obtain ⟨t, l, i⟩ := r
        simp only []
        have hA : Drops s (s.updMod mi (fun m => { m with tick := m.tick + 1, localq := l, inject := i })) := Drops.of_eq rfl
        exact (hA.trans (pollTask_drops net a _ mi path t)).trans (ih _)

theorem flush_stream (s : Sim) : s.flush.stream = s.stream := by
  unfold Sim.flush
  have : ∀ (l : List (KEvent × Nat)) (s0 : Sim), (l.foldl (fun s p => s.schedule p.1 p.2) s0).stream = s0.stream := by
    intro l
    induction l with
    | nil => intro s0; rfl
    | cons p r ih => intro s0; simp only [List.foldl_cons]; rw [ih, schedule_stream]
  rw [this]

theorem moduleEvent_drops (net : Net) (a : Ambient) (s : Sim) (mi : Nat) (cb : Callback) (flush : Bool) :
    Drops s (moduleEvent net a s mi cb flush) := by
  unfold moduleEvent
  cases s.mods[mi]? with
  | none => exact Drops.of_eq rfl
  | some m0 =>
    simp only []
    have h1 : Drops s (seedStage (s.updMod mi (activate s.now)) mi m0.seeded) := by
      unfold seedStage
      cases m0.seeded
      · simp only [Bool.false_eq_true, if_false]
        have hA : Drops s (s.updMod mi (activate s.now)) := Drops.of_eq rfl
        exact (hA.trans (Drops.pop _)).trans (Drops.of_eq rfl)
      · exact Drops.of_eq rfl
    generalize seedStage (s.updMod mi (activate s.now)) mi m0.seeded = s1 at h1
    have h2 : Drops s1 (runCallback net s1 mi m0 cb) := by
      cases cb with
      | start => exact (Drops.of_eq rfl).trans (runHandler_drops ..)
      | message msg => exact (Drops.of_eq rfl).trans (runHandler_drops ..)
      | wakeup => exact Drops.refl _
      | end_ => exact (Drops.of_eq rfl).trans (runHandler_drops ..)
    generalize runCallback net s1 mi m0 cb = s2 at h2
    have h3 := schedLoop_drops net a mi m0.path (execFuel s2 mi) s2
    generalize schedLoop net a mi m0.path (execFuel s2 mi) s2 = s3 at h3
    have h4 : Drops s3 (deactivate net.skipEmpty s3 mi) := by
      unfold deactivate
      cases s3.mods[mi]? with
      | none => exact Drops.refl _
      | some m =>
        simp only []
        cases wakeTime net.skipEmpty m with
        | none => exact Drops.refl _
        | some t => exact Drops.of_eq (by simp)
    have h5 := ((h1.trans h2).trans h3).trans h4
    cases flush
    · exact h5
    · simp only [if_true]; exact h5.trans (Drops.of_eq (flush_stream _))

theorem step_drops (net : Net) (a : Ambient) (s s' : Sim) (h : step net a s = some s') : Drops s s' := by
  unfold step at h
  cases hf : FES.fetch s.fes with
  | error e => simp [hf] at h
  | ok r =>
    obtain ⟨e, f⟩ := r
    simp only [hf, Option.some.injEq] at h
    subst h
    cases s.evs[e.val]? with
    | none => exact Drops.of_eq rfl
    | some ev =>
      cases ev with
      | deliver mi m => exact (Drops.of_eq rfl).trans (moduleEvent_drops ..)
      | wakeup mi => exact (Drops.of_eq rfl).trans (moduleEvent_drops ..)
      | exitConn mi m => exact Drops.of_eq (by simp [dispatch])

theorem loop_drops (net : Net) (a : Ambient) (fuel : Nat) :
    ∀ (s : Sim) (n : Nat), Drops s (loop net a fuel s n).1 := by
  induction fuel with
  | zero =>
    intro s n
    simp only [loop]
    by_cases h0 : FES.len s.fes = 0
    · simp only [h0, if_true]; exact Drops.refl s
    · simp only [h0, if_false]; exact Drops.of_eq rfl
  | succ k ih =>
    intro s n
    simp only [loop]
    cases s.fault with
    | some f => exact Drops.refl s
    | none =>
      simp only []
      cases hs : step net a s with
      | none => exact Drops.refl s
      | some s' => exact (step_drops net a s s' hs).trans (ih _ _)

theorem foldEvents_drops (net : Net) (a : Ambient) (cb : Callback) (flush : Bool) (l : List Nat) :
    ∀ s : Sim, Drops s (l.foldl (fun s mi => moduleEvent net a s mi cb flush) s) := by
  induction l with
  | nil => intro s; exact Drops.refl s
  | cons mi r ih => intro s; exact (moduleEvent_drops ..).trans (ih _)

theorem finalSim_drops (net : Net) (a : Ambient) (stream : List Nat) (fuel : Nat) :
    ∃ k, (finalSim net a stream fuel).1.stream = stream.drop k := by
  have h0 : (init net a stream).stream = stream := rfl
  have h1 : Drops (init net a stream) (simStart net a (init net a stream)) := foldEvents_drops ..
  have h2 := loop_drops net a fuel (simStart net a (init net a stream)) 0
  unfold finalSim
  simp only []
  generalize loop net a fuel (simStart net a (init net a stream)) 0 = r at h2
  cases r.1.fault with
  | some f => have := h1.trans h2; rw [Drops, h0] at this; exact this
  | none =>
    have h3 : Drops r.1 (simEnd net a r.1) := foldEvents_drops ..
    have := (h1.trans h2).trans h3
    rw [Drops, h0] at this
    exact this

end Repro

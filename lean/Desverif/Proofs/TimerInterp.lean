/-
Frame specification of the script interpreter (`poll`, `pollLines`, `Task.poll`, `pollTasks` of
Model/TimerSim.lean): one poll keeps time / task / incarnation, only *appends* admissible queue
operations and well-formed observations, and can request a restart only in incarnation 0.
Everything the simulation-level proofs need to know about what the scripts do is derived from this.
-/
import Desverif.Model.TimerSim
import Desverif.Proofs.TimerSleep
namespace Timer

def OkOps (now : Nat) (ops : List Op) : Prop := ∀ o ∈ ops, o.ok now

theorem okOps_nil (now : Nat) : OkOps now [] := by intro o h; cases h
theorem okOps_append {now : Nat} {a b : List Op} (ha : OkOps now a) (hb : OkOps now b) : OkOps now (a ++ b) := by
  intro o h
  rcases List.mem_append.mp h with h | h
  · exact ha o h
  · exact hb o h

/-- an observation made at `now` in incarnation `inc`; a timer completion is not early -/
def ObsOk (now inc : Nat) (o : Obs) : Prop :=
  o.time = now ∧ o.inc = inc ∧ ∀ d, o.due = some d → d ≤ now

/-- how the shutdown request may change -/
def ShutOk (now inc : Nat) (s0 s : Option (Option Nat)) : Prop :=
  s = s0 ∨ s = some none ∨ (∃ r, s = some (some r) ∧ inc = 0 ∧ now ≤ r)

theorem ShutOk.trans {now inc : Nat} {a b c : Option (Option Nat)} (h1 : ShutOk now inc a b)
    (h2 : ShutOk now inc b c) : ShutOk now inc a c := by
  rcases h2 with h | h | h
  · rw [h]; exact h1
  · exact Or.inr (Or.inl h)
  · exact Or.inr (Or.inr h)

/-- `c` is reachable from `c0` by interpreter steps -/
structure Moves (c0 c : Ctx) : Prop where
  now : c.now = c0.now
  tid : c.tid = c0.tid
  inc : c.inc = c0.inc
  ops : ∃ δ, c.ops = c0.ops ++ δ ∧ OkOps c0.now δ
  log : ∃ l, c.log = c0.log ++ l ∧ ∀ o ∈ l, ObsOk c0.now c0.inc o
  shut : ShutOk c0.now c0.inc c0.shut c.shut
  nextId : c0.nextId ≤ c.nextId

theorem Moves.refl (c : Ctx) : Moves c c :=
  ⟨rfl, rfl, rfl, ⟨[], by simp, okOps_nil _⟩, ⟨[], by simp, by intro o h; cases h⟩, Or.inl rfl, Nat.le_refl _⟩

theorem Moves.trans {a b c : Ctx} (h1 : Moves a b) (h2 : Moves b c) : Moves a c := by
  obtain ⟨δ1, e1, o1⟩ := h1.ops
  obtain ⟨δ2, e2, o2⟩ := h2.ops
  obtain ⟨l1, f1, p1⟩ := h1.log
  obtain ⟨l2, f2, p2⟩ := h2.log
  refine ⟨h2.now.trans h1.now, h2.tid.trans h1.tid, h2.inc.trans h1.inc,
    ⟨δ1 ++ δ2, by rw [e2, e1, List.append_assoc], ?_⟩, ⟨l1 ++ l2, by rw [f2, f1, List.append_assoc], ?_⟩, ?_,
    Nat.le_trans h1.nextId h2.nextId⟩
  · exact okOps_append o1 (by rw [← h1.now]; exact o2)
  · intro o ho
    rcases List.mem_append.mp ho with ho | ho
    · exact p1 o ho
    · have := p2 o ho; rw [h1.now, h1.inc] at this; exact this
  · have := h2.shut; rw [h1.inc, h1.now] at this; exact h1.shut.trans this

/-- change of fields the frame does not talk about (`line`, `env`), `nextId` only upwards -/
theorem Moves.upd {c0 c : Ctx} (h : Moves c0 c) (c' : Ctx) (h1 : c'.now = c.now) (h2 : c'.tid = c.tid)
    (h3 : c'.inc = c.inc) (h4 : c'.ops = c.ops) (h5 : c'.log = c.log) (h6 : c'.shut = c.shut)
    (h7 : c.nextId ≤ c'.nextId) : Moves c0 c' :=
  ⟨h1.trans h.now, h2.trans h.tid, h3.trans h.inc, by rw [h4]; exact h.ops, by rw [h5]; exact h.log,
   by rw [h6]; exact h.shut, Nat.le_trans h.nextId h7⟩

theorem Moves.emit {c0 c : Ctx} (h : Moves c0 c) {ops : List Op} (ho : OkOps c.now ops) : Moves c0 (c.emit ops) := by
  obtain ⟨δ, e, o⟩ := h.ops
  refine ⟨h.now, h.tid, h.inc, ⟨δ ++ ops, ?_, okOps_append o (by rw [← h.now]; exact ho)⟩, h.log, h.shut, h.nextId⟩
  show c.ops ++ ops = _
  rw [e, List.append_assoc]

theorem Moves.obs {c0 c : Ctx} (h : Moves c0 c) (k : String) : Moves c0 (c.obs k) := by
  obtain ⟨l, e, p⟩ := h.log
  refine ⟨h.now, h.tid, h.inc, h.ops, ⟨l ++ [{ line := c.line, inc := c.inc, kind := k, time := c.now }], ?_, ?_⟩,
    h.shut, h.nextId⟩
  · show c.log ++ _ = _
    rw [e, List.append_assoc]
  · intro o ho
    rcases List.mem_append.mp ho with ho | ho
    · exact p o ho
    · rw [List.mem_singleton.mp ho]
      exact ⟨h.now, h.inc, by intro d hd; cases hd⟩

theorem Moves.fin {c0 c : Ctx} (h : Moves c0 c) (k : String) {due : Nat} (since : Nat) (hd : due ≤ c.now)
    (own : Bool := false) : Moves c0 (c.fin k due since own) := by
  obtain ⟨l, e, p⟩ := h.log
  refine ⟨h.now, h.tid, h.inc, h.ops,
    ⟨l ++ [{ line := c.line, inc := c.inc, kind := k, time := c.now, due := some due, since := since, own := own }], ?_, ?_⟩,
    h.shut, h.nextId⟩
  · show c.log ++ _ = _
    rw [e, List.append_assoc]
  · intro o ho
    rcases List.mem_append.mp ho with ho | ho
    · exact p o ho
    · rw [List.mem_singleton.mp ho]
      refine ⟨h.now, h.inc, ?_⟩
      intro d hd'
      simp only [Option.some.injEq] at hd'
      rw [← hd', ← h.now]; exact hd

theorem named_dropOps_ok (n : Nat) (v : Named) : OkOps n v.dropOps := by
  cases v with
  | sl s => exact sleep_drop_ok s n
  | iv i => exact sleep_drop_ok i.delay n

theorem Moves.bind {c0 c : Ctx} (h : Moves c0 c) (x : String) (v : Named) : Moves c0 (c.bind x v) := by
  have hb : c.bind x v = ({ c with env := envSet c.env x v } : Ctx).emit
      (match envGet c.env x with | some o => o.dropOps | none => []) := rfl
  rw [hb]
  refine (h.upd { c with env := envSet c.env x v } rfl rfl rfl rfl rfl rfl (Nat.le_refl _)).emit ?_
  split
  · exact named_dropOps_ok _ _
  · exact okOps_nil _

theorem dropFut_ok (n : Nat) (f : Fut) : OkOps n (dropFut f) := by
  induction f with
  | sleeping s => exact sleep_drop_ok s n
  | timeoutRun s e ih => exact okOps_append ih (sleep_drop_ok s n)
  | select a b iha ihb => exact okOps_append iha ihb
  | seq a b iha _ => exact iha
  | _ => exact okOps_nil n

theorem timeout_poll_ok (ir : Bool) (s : Sleep) (tid now : Nat) : OkOps now (Timeout.poll ir s tid now).2.1 := by
  unfold Timeout.poll
  cases ir with
  | true => exact okOps_nil now
  | false => exact sleep_poll_ok s tid now

theorem timeout_poll_elapsed {s : Sleep} {tid now : Nat} {v : Bool}
    (h : (Timeout.poll false s tid now).2.2 = some v) : s.deadline ≤ now := by
  rw [timeout_poll_spec] at h
  simp only [Bool.false_eq_true, if_false] at h
  split at h
  · assumption
  · cases h

theorem pollTick_ok (i : Interval) (tid now : Nat) : OkOps now (i.pollTick tid now).2.1 := by
  unfold Interval.pollTick
  simp only
  split
  · exact okOps_append (sleep_poll_ok _ _ _) (sleep_reset_ok _ _ _)
  · exact sleep_poll_ok _ _ _

theorem pollTick_some {i : Interval} {tid now t : Nat} (h : (i.pollTick tid now).2.2 = some t) :
    t = i.delay.deadline ∧ t ≤ now := by
  by_cases hd : i.delay.deadline ≤ now
  · rw [pollTick_due i tid now hd] at h
    simp only [Option.some.injEq] at h
    exact ⟨h.symm, by omega⟩
  · have := (pollTick_early i tid now (by omega)).1
    rw [this] at h; cases h

theorem interval_reset_ok (i : Interval) (now n : Nat) : OkOps n (i.reset now).2 := by
  unfold Interval.reset
  exact sleep_reset_ok _ _ _

theorem moves_pollSleep {c0 c : Ctx} (s : Sleep) (k : String) (h : Moves c0 c) : Moves c0 (pollSleep s c k).2 := by
  unfold pollSleep
  simp only
  have hg := h.emit (sleep_poll_ok s c.tid c.now)
  split
  · rename_i hr
    exact hg.fin k _ ((sleep_poll_ready s c.tid c.now).mp hr) true
  · exact hg

theorem moves_timeoutStep {c0 : Ctx} (s : Sleep) (r : Option Fut × Ctx) (h1 : Moves c0 r.2) :
    Moves c0 (timeoutStep s r).2 := by
  obtain ⟨re, c1⟩ := r
  cases re with
  | none =>
    simp only [timeoutStep]
    exact ((h1.emit (okOps_nil _)).emit (sleep_drop_ok _ _)).obs _
  | some e' =>
    simp only [timeoutStep]
    have h2 := h1.emit (timeout_poll_ok false s c1.tid c1.now)
    split
    · rename_i v hv
      exact ((h2.emit (dropFut_ok _ _)).emit (sleep_drop_ok _ _)).fin _ _ (timeout_poll_elapsed hv) true
    · exact h2

/-- **frame specification of one poll of any script term** -/
theorem moves_poll (f : Fut) : ∀ {c0 c : Ctx}, Moves c0 c → Moves c0 (poll f c).2 := by
  induction f with
  | nop => intro c0 c h; exact h
  | sleep d =>
    intro c0 c h
    exact moves_pollSleep _ _ (h.upd { c with nextId := c.nextId + 1 } rfl rfl rfl rfl rfl rfl (Nat.le_succ _))
  | until_ t =>
    intro c0 c h
    exact moves_pollSleep _ _ (h.upd { c with nextId := c.nextId + 1 } rfl rfl rfl rfl rfl rfl (Nat.le_succ _))
  | sleeping s => intro c0 c h; exact moves_pollSleep _ _ h
  | timeout d e ih =>
    intro c0 c h
    exact moves_timeoutStep _ _ (ih (h.upd { c with nextId := c.nextId + 1 } rfl rfl rfl rfl rfl rfl (Nat.le_succ _)))
  | timeoutRun s e ih =>
    intro c0 c h
    exact moves_timeoutStep _ _ (ih h)
  | select a b iha ihb =>
    intro c0 c h
    simp only [poll]
    have h1 := iha h
    split
    · rename_i c1 heq
      rw [heq] at h1
      exact (h1.emit (dropFut_ok _ _)).obs _
    · rename_i a' c1 heq
      rw [heq] at h1
      have h2 := ihb h1
      split
      · rename_i c2 heq2
        rw [heq2] at h2
        exact (h2.emit (dropFut_ok _ _)).obs _
      · rename_i b' c2 heq2
        rw [heq2] at h2
        exact h2
  | seq a b iha ihb =>
    intro c0 c h
    simp only [poll]
    have h1 := iha h
    split
    · rename_i c1 heq
      rw [heq] at h1
      exact ihb h1
    · rename_i a' c1 heq
      rw [heq] at h1
      exact h1
  | new x d =>
    intro c0 c h
    exact (h.upd { c with nextId := c.nextId + 1 } rfl rfl rfl rfl rfl rfl (Nat.le_succ _)).bind _ _
  | newu x t =>
    intro c0 c h
    exact (h.upd { c with nextId := c.nextId + 1 } rfl rfl rfl rfl rfl rfl (Nat.le_succ _)).bind _ _
  | pollOnce x =>
    intro c0 c h
    simp only [poll]
    split
    · rename_i s _
      have hg := (h.upd { c with env := envSet c.env x (.sl (s.poll c.tid c.now).1) } rfl rfl rfl rfl rfl rfl
        (Nat.le_refl _)).emit (sleep_poll_ok s c.tid c.now)
      split
      · rename_i hr
        exact hg.fin _ _ ((sleep_poll_ready s c.tid c.now).mp hr)
      · exact hg.obs _
    · exact h.obs _
  | reset x d =>
    intro c0 c h
    simp only [poll]
    split
    · rename_i s _
      exact (h.upd { c with env := envSet c.env x (.sl (s.reset (c.now + d)).1) } rfl rfl rfl rfl rfl rfl
        (Nat.le_refl _)).emit (sleep_reset_ok _ _ _)
    · exact h
  | resetu x t =>
    intro c0 c h
    simp only [poll]
    split
    · rename_i s _
      exact (h.upd { c with env := envSet c.env x (.sl (s.reset t).1) } rfl rfl rfl rfl rfl rfl
        (Nat.le_refl _)).emit (sleep_reset_ok _ _ _)
    · exact h
  | drop x =>
    intro c0 c h
    simp only [poll]
    split
    · rename_i v _
      exact (h.upd { c with env := envDel c.env x } rfl rfl rfl rfl rfl rfl (Nat.le_refl _)).emit
        (named_dropOps_ok _ _)
    · exact h
  | await x =>
    intro c0 c h
    simp only [poll]
    split
    · rename_i s _
      have hg := (h.upd { c with env := envSet c.env x (.sl (s.poll c.tid c.now).1) } rfl rfl rfl rfl rfl rfl
        (Nat.le_refl _)).emit (sleep_poll_ok s c.tid c.now)
      split
      · rename_i hr
        exact hg.fin _ _ ((sleep_poll_ready s c.tid c.now).mp hr)
      · exact hg
    · exact h.obs _
  | inew x p m d =>
    intro c0 c h
    exact (h.upd { c with nextId := c.nextId + 1 } rfl rfl rfl rfl rfl rfl (Nat.le_succ _)).bind _ _
  | tick x =>
    intro c0 c h
    simp only [poll]
    split
    · rename_i i _
      have hg := (h.upd { c with env := envSet c.env x (.iv (i.pollTick c.tid c.now).1) } rfl rfl rfl rfl rfl rfl
        (Nat.le_refl _)).emit (pollTick_ok i c.tid c.now)
      split
      · rename_i t ht
        exact hg.fin _ _ (pollTick_some ht).2
      · exact hg
    · exact h.obs _
  | ireset x =>
    intro c0 c h
    simp only [poll]
    split
    · rename_i i _
      exact (h.upd { c with env := envSet c.env x (.iv (i.reset c.now).1) } rfl rfl rfl rfl rfl rfl
        (Nat.le_refl _)).emit (interval_reset_ok _ _ _)
    · exact h
  | restart d =>
    intro c0 c h
    simp only [poll]
    split
    · rename_i hinc
      exact ⟨h.now, h.tid, h.inc, h.ops, h.log,
        Or.inr (Or.inr ⟨_, rfl, by rw [← h.inc]; exact hinc, by rw [← h.now]; exact Nat.le_add_right _ _⟩), h.nextId⟩
    · exact h
  | halt =>
    intro c0 c h
    exact ⟨h.now, h.tid, h.inc, h.ops, h.log, Or.inr (Or.inl rfl), h.nextId⟩

theorem moves_pollLines (ls : List (Nat × Fut)) : ∀ {c0 c : Ctx}, Moves c0 c → Moves c0 (pollLines ls c).2 := by
  induction ls with
  | nil => intro c0 c h; exact h
  | cons a rest ih =>
    intro c0 c h
    obtain ⟨ln, f⟩ := a
    simp only [pollLines]
    have h1 := moves_poll f (h.upd { c with line := ln } rfl rfl rfl rfl rfl rfl (Nat.le_refl _))
    split
    · rename_i c1 heq
      rw [heq] at h1
      exact ih h1
    · rename_i f' c1 heq
      rw [heq] at h1
      exact h1

theorem envDropOps_ok (n : Nat) (env : List (String × Named)) : OkOps n (envDropOps env) := by
  intro o ho
  simp only [envDropOps, List.mem_flatMap] at ho
  obtain ⟨x, _, hx⟩ := ho
  exact named_dropOps_ok n x.2 o hx

theorem task_dropOps_ok (n : Nat) (t : Task) : OkOps n t.dropOps := by
  unfold Task.dropOps
  apply okOps_append _ (envDropOps_ok n _)
  split
  · exact dropFut_ok n _
  · exact okOps_nil n

/-- frame specification at the level of the state shared by the polls of one module event -/
structure AMoves (now inc : Nat) (a0 a : Acc) : Prop where
  ops : ∃ δ, a.ops = a0.ops ++ δ ∧ OkOps now δ
  log : ∃ l, a.log = a0.log ++ l ∧ ∀ o ∈ l, ObsOk now inc o
  shut : ShutOk now inc a0.shut a.shut
  nextId : a0.nextId ≤ a.nextId

theorem AMoves.refl (now inc : Nat) (a : Acc) : AMoves now inc a a :=
  ⟨⟨[], by simp, okOps_nil _⟩, ⟨[], by simp, by intro o h; cases h⟩, Or.inl rfl, Nat.le_refl _⟩

theorem AMoves.trans {now inc : Nat} {a b c : Acc} (h1 : AMoves now inc a b) (h2 : AMoves now inc b c) :
    AMoves now inc a c := by
  obtain ⟨δ1, e1, o1⟩ := h1.ops
  obtain ⟨δ2, e2, o2⟩ := h2.ops
  obtain ⟨l1, f1, p1⟩ := h1.log
  obtain ⟨l2, f2, p2⟩ := h2.log
  refine ⟨⟨δ1 ++ δ2, by rw [e2, e1, List.append_assoc], okOps_append o1 o2⟩,
    ⟨l1 ++ l2, by rw [f2, f1, List.append_assoc], ?_⟩, h1.shut.trans h2.shut, Nat.le_trans h1.nextId h2.nextId⟩
  intro o ho
  rcases List.mem_append.mp ho with ho | ho
  · exact p1 o ho
  · exact p2 o ho

theorem amoves_task_poll (t : Task) (tid now inc : Nat) (a : Acc) : AMoves now inc a (t.poll tid now inc a).2 := by
  unfold Task.poll
  split
  · exact AMoves.refl _ _ _
  · simp only
    have hg := moves_pollLines t.lines (Moves.refl ⟨now, tid, inc, 0, a.nextId, t.env, a.log, a.ops, a.shut⟩)
    obtain ⟨δ, e, o⟩ := hg.ops
    split
    · refine ⟨⟨δ ++ envDropOps (pollLines t.lines ⟨now, tid, inc, 0, a.nextId, t.env, a.log, a.ops, a.shut⟩).2.env,
        ?_, okOps_append o (envDropOps_ok _ _)⟩, hg.log, hg.shut, hg.nextId⟩
      show _ ++ _ = _
      rw [e, List.append_assoc]
    · exact ⟨⟨δ, e, o⟩, hg.log, hg.shut, hg.nextId⟩

theorem amoves_pollTasks (tasks : List Task) (idx : Nat) (run : Nat → Bool) (now inc : Nat) (a : Acc) :
    AMoves now inc a (pollTasks tasks idx run now inc a).2 := by
  induction tasks generalizing idx a with
  | nil => exact AMoves.refl _ _ _
  | cons t rest ih =>
    simp only [pollTasks]
    split
    · exact (amoves_task_poll t idx now inc a).trans (ih _ _)
    · exact ih _ _

end Timer

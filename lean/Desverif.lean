import Desverif.Model.CQ
import Desverif.Spec.FES
import Desverif.Proofs.CQArith

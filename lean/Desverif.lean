import Desverif.Props.C01
import Desverif.Props.C03
import Desverif.Props.C07
import Desverif.Props.C12
import Desverif.Props.C14
import Desverif.Props.C16
import Desverif.Props.C17
import Desverif.Props.C18

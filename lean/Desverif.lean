import Desverif.Props.C01
import Desverif.Props.C03

/- C10 shares the runtime-session driver of C02 -/
import Driver.C02
namespace Driver.C10
def main (stdin : IO.FS.Stream) : IO Unit := Driver.C02.main "c10" stdin
end Driver.C10

/-
Driver for C20.  From the script (same parsing rules as harness/src/c20.rs) and the observations the
harness made at the stopping point (`stop`, `q`, `fin` lines; which tracked objects were still alive)
it builds the description `Own.Desc` of the stopped simulation, runs the model (`Own.dropSim`,
`Own.leaked`, `Own.wired` — the definitions the theorems of Props/C20.lean are about) and compares
the model's per-kind verdict with the destructor counters of the real run.  Independently the
acceptance rule of the property is applied to the counters themselves: every created object must have
been dropped exactly once after the result of the run was dropped (`kind=reject` otherwise), and the
second simulation run in the same process must produce the trace of a fresh process.
The tie observes outcomes only (counters, queue lengths, event counts), not the reference graph.
-/
import Desverif.Spec.OwnRank
import Driver.Common
namespace Driver.C20
open Own Driver

structure ModDecl where
  name : String
  parent : Option Nat
  pe : Nat
  afn : Bool := false      -- built with AsyncFn::{new,failable,io}
  wait : String := "recv"

structure ChainDecl where
  name : String
  ch : String
  ring : Bool
  mods : List Nat          -- module indices, distinct

structure TaskDecl where
  tag : String
  mod : Nat
  wait : Nat → Wait        -- given the slot index
  sleeps : Bool
  joined : Bool
  sends : Bool             -- the task sends a message when its sleep is over

structure Obj where
  kind : String
  tag : String
  c : Nat
  s : Nat
  d : Nat
  l : Nat                  -- drop count after the follow-up simulations

def modIdx (ms : List ModDecl) (n : String) : Option Nat := ms.findIdx? (·.name == n)

def parseMods (body : List String) : List ModDecl := Id.run do
  let mut ms : List ModDecl := []
  for line in body do
    match words line with
    | "mod" :: m :: rest =>
      if (modIdx ms m).isNone && !(m.contains '.') then
        let parent := (kv rest "parent").bind (modIdx ms)
        let afn := (kv rest "kind").isSome
        ms := ms ++ [⟨m, parent, if afn then 0 else (kvNat rest "pe").getD 0, afn, (kv rest "wait").getD "recv"⟩]
    | _ => pure ()
  return ms

def parseChains (ms : List ModDecl) (body : List String) : List ChainDecl := Id.run do
  let mut cs : List ChainDecl := []
  for line in body do
    match words line with
    | "chain" :: c :: rest =>
      if !cs.any (·.name == c) then
        let mut mods : List Nat := []
        for m in ((kv rest "mods").getD "").splitOn "," do
          match modIdx ms m with
          | some i => if !mods.contains i then mods := mods ++ [i]
          | none => pure ()
        if mods.length ≥ 2 then
          let ring := (kv rest "ring") == some "1" && mods.length ≥ 3
          cs := cs ++ [⟨c, (kv rest "ch").getD "none", ring, mods⟩]
    | _ => pure ()
  return cs

def parseTasks (ms : List ModDecl) (cs : List ChainDecl) (body : List String) : List TaskDecl := Id.run do
  let mut ts : List TaskDecl := []
  for line in body do
    match words line with
    | "do" :: m :: _hook :: _key :: "task" :: t :: rest =>
      match modIdx ms m with
      | none => pure ()
      | some mi =>
        if (ms[mi]?.map (·.afn)).getD false then continue
        if ts.any (·.tag == t) then continue
        match rest with
        | ["sleep", _, _, j] => ts := ts ++ [⟨t, mi, fun s => .sleep s, true, j != "none", false⟩]
        | ["recv", own, _, j] => ts := ts ++ [⟨t, mi, fun _ => .recv (own != "1"), false, j != "none", false⟩]
        | ["ssend", _, c, _, _] =>
          if cs.any (fun x => x.name == c && x.mods.contains mi) then
            ts := ts ++ [⟨t, mi, fun s => .sleep s, true, false, true⟩]
        | _ => pure ()
    | _ => pure ()
  return ts

/-- number of emissions scripted for `at_sim_end` (they stay in the static event buffer) -/
def endEmits (ms : List ModDecl) (body : List String) : Nat :=
  (body.filter fun line =>
    match words line with
    | "do" :: m :: "end" :: _ :: act :: _ =>
      ((modIdx ms m).bind fun i => ms[i]?.map (!·.afn)).getD false && (act == "send" || act == "sched")
    | _ => false).length

def parseObjs (body : List String) : List Obj :=
  body.filterMap fun line =>
    match words line with
    | "obj" :: k :: t :: rest => some ⟨k, t, (kvNat rest "c").getD 0, (kvNat rest "s").getD 0, (kvNat rest "d").getD 0,
        (kvNat rest "l").getD ((kvNat rest "d").getD 0)⟩
    | _ => none

def natList (s : String) : List Nat := (s.splitOn ",").filterMap String.toNat?

def baseTag (t : String) : String := (t.splitOn "#").headD t

def qmsg (ep : Nat) : MsgD := ⟨true, some ep⟩

/-- gates and links of all chains: gate ids are allocated chain by chain -/
def wiring (cs : List ChainDecl) (qs : List (String × String × List Nat)) : List Nat × List LinkD := Id.run do
  let mut gates : List Nat := []
  let mut links : List LinkD := []
  for c in cs do
    let base := gates.length
    let n := c.mods.length
    gates := gates ++ c.mods
    let fwd := (qs.find? fun q => q.1 == c.name && q.2.1 == "fwd").map (·.2.2) |>.getD []
    let bwd := (qs.find? fun q => q.1 == c.name && q.2.1 == "bwd").map (·.2.2) |>.getD []
    let chan := c.ch != "none"
    for i in List.range (n - 1) do
      let a := base + i
      let b := base + i + 1
      let nab := fwd.getD i 0
      let nba := bwd.getD (n - 2 - i) 0
      links := links ++ [⟨a, b, chan, List.replicate nab (qmsg b), List.replicate nba (qmsg a)⟩]
    if c.ring then
      links := links ++ [⟨base + n - 1, base, chan, [], []⟩]
  return (gates, links)

def sim2Expected : String :=
  -- fresh-process trace: every clock reading while the network is built is 0 (SimTime::MIN); x schedules
  -- message 9 at build-time clock + 10 ns and sends 1,2,3 with send_in 1,2,3 ns over a 1 ns channel;
  -- y spawns a 5 ns sleeper on message 1
  let buildClock := 0
  let built := ["n", "cx", "kx", "cy", "ky", "m"].map fun k => s!"{k}@{buildClock}"
  let arr := [1, 2, 3].map fun i => s!"y:{i}@{i + 1}"
  let t := (1 + 1) + 5
  let x9 := buildClock + 10
  ",".intercalate (built ++ arr ++ [s!"t@{t}", s!"x:9@{x9}", s!"ok:{x9}:0"])

def kindOfNode : NId → String
  | .state _ => "mod" | .pe _ _ => "pe" | .taskState _ _ => "task" | .body _ => "body" | .probe _ _ => "probe" | _ => "?"

def countKind (l : List String) (k : String) : Nat := (l.filter (· == k)).length

def processCase (c : Case) : String := Id.run do
  let hdr := words c.header
  let id := hdr[1]?.getD "?"
  let stop := (kv hdr "stop").getD "full"
  let endMode := (kv hdr "end").getD "finish"
  let ms := parseMods c.body
  let cs := parseChains ms c.body
  let ts := parseTasks ms cs c.body
  let objs := parseObjs c.body
  let stopL := (c.body.find? (·.startsWith "stop ")).map words |>.getD []
  let finL := (c.body.find? (·.startsWith "fin ")).map words |>.getD []
  let sim2 := (c.body.find? (·.startsWith "sim2 ")).map (fun l => (l.drop 5).toString.trimAscii.toString) |>.getD ""
  let sim3 := (c.body.find? (·.startsWith "sim3 ")).map (fun l => (l.drop 5).toString.trimAscii.toString) |>.getD ""
  let res := (kv finL "res").getD "?"
  let started := !(stop == "never" || stop == "never0")
  let fes := (kvNat stopL "fes").getD 0
  let kept := (kvNat stopL "kept").getD 0
  let queued := (kvNat stopL "queued").getD 0
  let down := ((kv stopL "down").getD "-").splitOn ","
  let qs := c.body.filterMap fun line =>
    match words line with
    | ["q", cn, dir, ns] => some (cn, dir, natList ns)
    | _ => none
  -- ---------------------------------------------------------------- description
  let askedL := ((c.body.find? (·.startsWith "asked ")).map (fun l => ((words l)[1]?.getD "-").splitOn ",")).getD []
  let aliveTasks := objs.filter fun o => o.kind == "task" && o.s == 0
  let aliveCaps := objs.filter fun o => o.kind == "cap" && o.s == 0
  let heldN := (kvNat stopL "held").getD 0
  let aliveCredits := ((objs.filter (·.kind == "zbody")).map fun o => o.c - o.s).foldl (· + ·) 0
  let aliveBodies0 := (objs.filter fun o => o.kind == "body" && o.s == 0).length + aliveCredits
  -- live bodies that are in none of the other places are unread messages of an AsyncFn `hold` task
  let inboxN := min 8 (aliveBodies0 - (fes + queued + kept + heldN))
  let firstHold := ms.findIdx? fun m => m.afn && m.wait == "hold" && aliveCaps.any (fun o => baseTag o.tag == m.name)
  let mut mods : List ModD := []
  let mut mi := 0
  let mut slotTotal := 0
  for m in ms do
    let mine := aliveTasks.filterMap fun o => ts.find? fun t => t.tag == baseTag o.tag && t.mod == mi
    -- an inactive module is either shut down (`Rt::Shutdown`, no tasks) or one that panicked (its runtime lives on)
    let running := started && (!down.contains m.name || !mine.isEmpty)
    let mut tds : List TaskD := []
    let mut slot := 0
    for t in mine do
      tds := tds ++ [⟨t.wait slot, t.joined⟩]
      if t.sleeps then slot := slot + 1
    slotTotal := slotTotal + slot
    let keptHere := if mi == 0 then List.replicate kept (⟨true, none⟩ : MsgD) else []
    let capAlive := aliveCaps.any fun o => baseTag o.tag == m.name
    let running := running || (started && capAlive)
    let afn : Option AfnD :=
      if m.afn && running then
        let here := firstHold == some mi
        let sleeping := if m.wait == "hold" && capAlive && heldN > 0 then some slot else none
        some ⟨capAlive, sleeping, if here then List.replicate inboxN ⟨true, none⟩ else [],
              if here then List.replicate heldN ⟨true, none⟩ else []⟩
      else none
    if afn.any (·.sleeping.isSome) then slot := slot + 1
    mods := mods ++ [⟨m.parent, m.pe, running, if running then tds else [], if running then slot else 0, keptHere, afn,
                      askedL.contains m.name⟩]
    mi := mi + 1
  let (gates, links) := wiring cs qs
  let firstChan := (links.findIdx? (·.chan)).getD 0
  let mkEvs (hm ex ub rs aw : Nat) : List EvD :=
    List.replicate hm (.handle 0 ⟨true, none⟩) ++ List.replicate ex (.exiting 0 none ⟨true, none⟩) ++
    List.replicate ub (.unbusy firstChan true) ++ List.replicate rs (.restart 0) ++ List.replicate aw (.wakeup 0)
  let remEvs := if res == "ok" then
      mkEvs ((kvNat finL "hm").getD 0) ((kvNat finL "ex").getD 0) ((kvNat finL "ub").getD 0)
        ((kvNat finL "rs").getD 0) ((kvNat finL "aw").getD 0)
    else []
  let fesEvs := if res == "ok" then [] else mkEvs fes 0 0 0 0
  -- `at_sim_end` of the modules runs only inside a `finish()` that gets past the inner application
  let bufN := if started && (res == "ok" || (res == "err" && endMode != "apperr")) then endEmits ms c.body else 0
  let stopKind : Stop :=
    if stop == "never0" then .neverBuilt else if stop == "never" then .unstarted
    else if res == "nofinish" then .stepped else if res == "unwound" || res == "panic" then .unwound
    else if res == "err" then .finishedErr else .finishedOk
  let d : Desc := { mods := mods, gates := gates, links := links, fes := fesEvs, rem := remEvs,
                    buf := mkEvs bufN 0 0 0 0, stop := stopKind }
  -- ---------------------------------------------------------------- model verdict
  let st := dropSim d
  let mleak := (leaked d).map kindOfNode
  let isWired := wired d
  -- ---------------------------------------------------------------- acceptance rule on the counters
  let bad := objs.filter fun o => o.d != o.c || (o.c != 1 && o.kind != "zbody") || o.l != o.d
  let olate := (objs.filter fun o => o.l != o.d).map (·.kind)
  let norm (k : String) : String := if k == "cap" then "task" else if k == "zbody" then "body" else k
  let oleak := (objs.filter fun o => o.d < o.c).flatMap fun o => List.replicate (o.c - o.d) (norm o.kind)
  let odouble := (objs.filter fun o => o.d > o.c).flatMap fun o => List.replicate (o.d - o.c) (norm o.kind)
  let kinds := ["mod", "pe", "task", "body", "probe"]
  let nobjs := objs.length
  match bad.head? with
  | some o =>
    let idx := (objs.findIdx? fun x => x.tag == o.tag && x.kind == o.kind).getD 0
    let per := " ".intercalate (kinds.map fun k => s!"{k}:leaked={countKind oleak k},double={countKind odouble k}")
    let mper := " ".intercalate (kinds.map fun k => s!"{k}={countKind mleak k}")
    -- does the model of the code before the C20 repair (queued connection keeps its channel) explain it?
    let oldLeak := (leaked { d with keepChan := true }).map kindOfNode
    let explained := odouble.isEmpty && queued > 0 && kinds.all fun k => countKind oldLeak k == countKind oleak k
    let mper := mper ++ (if explained then "] tag=backlog-cycle old-code-model=[body=" ++ toString (countKind oldLeak "body") else "")
    -- does a panic hook that holds the globals (model variant `hookGlobals`) explain it?
    -- does a task that captures its own module context (model variant `taskCtx`) explain it?
    let ctxLeak := (leaked { d with taskCtx := true }).map kindOfNode
    let ctxExplained := odouble.isEmpty && !ctxLeak.isEmpty && countKind ctxLeak "task" == countKind oleak "task"
    let mper := mper ++ (if ctxExplained then "] tag=task-captures-ctx taskctx-model=[task=" ++ toString (countKind ctxLeak "task") else "")
    -- does a cached strong parent handle (model variant `parentCache`) explain it?
    let pcLeak := (leaked { d with parentCache := true }).map kindOfNode
    let pcExplained := odouble.isEmpty && !pcLeak.isEmpty && kinds.all fun k => k == "body" || countKind pcLeak k == countKind oleak k
    let mper := mper ++ (if pcExplained then "] tag=parent-cache parentcache-model=[mod=" ++ toString (countKind pcLeak "mod") else "")
    let zleak : Nat := ((objs.filter (·.kind == "zbody")).map fun o => o.c - o.d).foldl (· + ·) 0
    let mper := mper ++ (if zleak > 0 then "] zero-sized-bodies-leaked=[" ++ toString zleak else "")
    let hookLeak := (leaked { d with hookGlobals := true }).map kindOfNode
    let hookExplained := odouble.isEmpty && !hookLeak.isEmpty && kinds.all fun k => countKind hookLeak k == countKind oleak k
    let mper := mper ++ (if hookExplained then "] tag=hook-holds-globals hook-model=[mod=" ++ toString (countKind hookLeak "mod") else "")
    let clause := if o.d == o.c && o.c == 1 then "released-late" else "dropped-exactly-once"
    return s!"fail {id} op={idx} kind=reject clause={clause} first={o.kind}:{o.tag} c={o.c} d={o.d} l={o.l} late={olate.length} {per} stop={stop} end={endMode} res={res} queued={queued} fes={fes} model-leaks=[{mper}] second-sim={if sim2 == sim2Expected && sim3 == sim2Expected then "same" else "differs:" ++ sim2}"
  | none => pure ()
  if sim2 == "hung" || sim3 == "hung" then
    return s!"fail {id} op={nobjs} kind=reject clause=second-simulation what=hung which={if sim2 == "hung" then "second" else "third"} stop={stop} end={endMode} res={res} detail=the-follow-up-simulation-did-not-return-within-10s"
  if sim2 != sim2Expected then
    return s!"fail {id} op={nobjs} kind=reject clause=second-simulation spec={sim2Expected} impl={sim2}"
  if sim3 != sim2Expected then
    return s!"fail {id} op={nobjs + 1} kind=reject clause=third-simulation spec={sim2Expected} impl={sim3}"
  -- ---------------------------------------------------------------- tie
  if st.err.isSome then
    return s!"fail {id} op=0 kind=diverge what=model-error"
  if !isWired then
    return s!"fail {id} op=0 kind=diverge what=description-not-wired"
  if !mleak.isEmpty then
    let mper := " ".intercalate (kinds.map fun k => s!"{k}={countKind mleak k}")
    return s!"fail {id} op=0 kind=diverge what=model-predicts-leak model=[{mper}] impl=none"
  let nMod := (objs.filter (·.kind == "mod")).length
  let nPe := (objs.filter (·.kind == "pe")).length
  let mPe := (ms.map (·.pe)).foldl (· + ·) 0
  let mMod := (ms.filter (!·.afn)).length
  if nMod != mMod || nPe != mPe then
    return s!"fail {id} op=0 kind=diverge what=object-census model=mods:{mMod},pe:{mPe} impl=mods:{nMod},pe:{nPe}"
  let mCaps := (mods.filter fun m => m.afn.any (·.alive)).length
  if mCaps != aliveCaps.length then
    return s!"fail {id} op=0 kind=diverge what=asyncfn-task-census model={mCaps} impl={aliveCaps.length}"
  let mTasks := (mods.map (·.tasks.length)).foldl (· + ·) 0
  -- tasks alive in an inactive module whose script cannot panic: `shutdown` must have dropped them
  let canPanic (m : String) : Bool := c.body.any fun line =>
    match words line with
    | "do" :: m' :: _ :: _ :: act :: _ => m' == m && (act == "panic" || act == "send" || act == "task")
    | _ => false
  let downTasks := (aliveTasks.filter fun o =>
      match ts.find? fun t => t.tag == baseTag o.tag with
      | some t =>
        let mn := (ms[t.mod]?.map (·.name)).getD ""
        down.contains mn && !canPanic mn
      | none => true).length
  if mTasks != aliveTasks.length then
    return s!"fail {id} op=0 kind=diverge what=task-census model={mTasks} impl={aliveTasks.length}"
  if downTasks != 0 then
    return s!"fail {id} op=0 kind=diverge what=task-alive-in-shut-down-module n={downTasks}"
  let aliveBodies := aliveBodies0
  -- a sender task that is due may still run (and send into the static buffer) inside `finish()`
  let senders := (aliveTasks.filter fun o => (ts.find? fun t => t.tag == baseTag o.tag).any (·.sends)).length
  let room := fes + queued + kept + bufN + senders + heldN + 8 * aliveCaps.length
  if started && aliveBodies > room then
    return s!"fail {id} op=0 kind=diverge what=bodies-outside-modelled-places alive={aliveBodies} fes={fes} queued={queued} kept={kept} buf={bufN}"
  -- `finish()` hands over the pending events, plus at most one wake-up per module scheduled by `at_sim_end`
  let rem := (kvNat finL "rem").getD 0
  if res == "ok" && (rem < fes || rem > fes + ms.length) then
    return s!"fail {id} op=0 kind=diverge what=remaining-vs-fes rem={rem} fes={fes}"
  let nt := started && res != "panic" && (fes > 0 || queued > 0 || aliveTasks.length > 0 || aliveCaps.length > 0 || res == "unwound")
  return s!"ok {id} nt={if nt then 1 else 0} objs={nobjs} mods={ms.length} alivetasks={aliveTasks.length} asyncfn={aliveCaps.length} unread={inboxN} queued={queued} pending={fes} alivebodies={aliveBodies} nodes={(nodesOf d).eraseDups.length} errend={if res == "err" then 1 else 0} nofinish={if res == "nofinish" then 1 else 0} unwound={if res == "unwound" then 1 else 0} rings={(cs.filter (·.ring)).length}"

def main (stdin : IO.FS.Stream) : IO Unit := do
  let cases ← readCases stdin
  for c in cases do
    IO.println (processCase c)

end Driver.C20

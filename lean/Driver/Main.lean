import Driver.C01

def main (args : List String) : IO UInt32 := do
  let stdin ← IO.getStdin
  match args with
  | ["c01"] | ["c03"] => Driver.C01.main stdin; return 0
  | _ => IO.eprintln "usage: desdriver <prop> < transcript"; return 2

import Driver.C01
import Driver.C02
import Driver.C04
import Driver.C05
import Driver.C06
import Driver.C07
import Driver.C08
import Driver.C09
import Driver.C10
import Driver.C11
import Driver.C12
import Driver.C13
import Driver.C14
import Driver.C15
import Driver.C16
import Driver.C17
import Driver.C18
import Driver.C19
import Driver.C20

def main (args : List String) : IO UInt32 := do
  let stdin ← IO.getStdin
  match args with
  | ["c01"] | ["c03"] => Driver.C01.main stdin; return 0
  | ["c02"] => Driver.C02.main "c02" stdin; return 0
  | ["c04"] => Driver.C04.main stdin; return 0
  | ["c05"] => Driver.C05.main stdin; return 0
  | ["c06"] => Driver.C06.main stdin; return 0
  | ["c07"] => Driver.C07.main stdin; return 0
  | ["c08"] => Driver.C08.main stdin; return 0
  | ["c09"] => Driver.C09.main stdin; return 0
  | ["c10"] => Driver.C10.main stdin; return 0
  | ["c11"] => Driver.C11.main stdin; return 0
  | ["c12"] => Driver.C12.main stdin; return 0
  | ["c13"] => Driver.C13.main stdin; return 0
  | ["c14"] => Driver.C14.main stdin; return 0
  | ["c15"] => Driver.C15.main stdin; return 0
  | ["c16"] => Driver.C16.main stdin; return 0
  | ["c17"] => Driver.C17.main stdin; return 0
  | ["c18"] => Driver.C18.main stdin; return 0
  | ["c19"] => Driver.C19.main stdin; return 0
  | ["c20"] => Driver.C20.main stdin; return 0
  | _ => IO.eprintln "usage: desdriver <prop> < transcript"; return 2

/-
Driver for C15: replays an implementation transcript (allocator event stream + queue answers +
destructor log) through
  (i)  the Lean allocator model `Alloc` / the queue-with-memory model `CQMem`, with the pages in
       the observed order — it must predict every address (`kind=diverge` otherwise), and
  (ii) the acceptance checkers: the shadow map `AllocSafe.accept` for the memory clauses, the
       abstract event set `FES` for the payload clauses (`kind=reject` on violation).
-/
import Desverif.Model.CQMem
import Desverif.Spec.AllocSafe
import Driver.Common
namespace Driver.C15
open Driver
open AllocSafe (Ev Shadow)

/-- `<k>+<off>` or `?` -/
def parseLoc (s : String) : Option (Option (Nat × Nat)) :=
  if s = "?" then some none
  else match s.splitOn "+" with
    | [k, off] => match k.toNat?, off.toNat? with
      | some k, some off => some (some (k, off))
      | _, _ => none
    | _ => none

def parseEv (tok : String) : Option Ev :=
  let parts := tok.splitOn ":"
  match parts with
  | hd :: rest =>
    let tag := hd.take 1 |>.toString
    let body := hd.drop 1 |>.toString
    match tag, rest.map String.toNat? with
    | "P", [some len, some al, some dj] => body.toNat?.map fun k => Ev.page k len (al != 0) (dj != 0)
    | "A", [some sz, some al, some ok] => (parseLoc body).map fun loc => Ev.alloc loc sz al (ok != 0)
    | "E", [some sz, some al] => some (Ev.fail sz al)
    | "F", [some sz, some al] => (parseLoc body).map fun loc => Ev.free loc sz al
    | _, _ => none
  | [] => none

def parseEvs (s : String) : Option (List Ev) :=
  if s = "-" then some [] else (s.splitOn ",").mapM parseEv

def showLoc : Option (Nat × Nat) → String
  | none => "?"
  | some (k, off) => s!"{k}+{off}"

def showEv : Ev → String
  | .page k len al dj => s!"P{k}:{len}:{if al then 1 else 0}:{if dj then 1 else 0}"
  | .alloc loc sz al ok => s!"A{showLoc loc}:{sz}:{al}:{if ok then 1 else 0}"
  | .fail sz al => s!"E:{sz}:{al}"
  | .free loc sz al => s!"F{showLoc loc}:{sz}:{al}"

def showEvs (l : List Ev) : String := if l.isEmpty then "-" else ",".intercalate (l.map showEv)

open AllocSafe (orcOf locOf ofMEv)

def log2? (n : Nat) : Option Nat := (List.range 40).find? fun k => 2 ^ k == n

def parseDrops (s : String) : Option (List Nat) :=
  if s = "-" then some [] else (s.splitOn ",").mapM String.toNat?

def showNats (l : List Nat) : String := if l.isEmpty then "-" else ",".intercalate (l.map toString)

def sortNats (l : List Nat) : List Nat := (l.toArray.qsort (· < ·)).toList

structure Stats where
  ops : Nat := 0
  cancels : Nat := 0
  pendingAtDrop : Nat := 0

def verdictOk (id kind : String) (sh : Shadow) (st : Stats) : String :=
  let nt := sh.reused > 0 && (sh.pages ≥ 2 || st.pendingAtDrop > 0)
  s!"ok {id} nt={if nt then 1 else 0} ops={st.ops} allocs={sh.allocs} frees={sh.frees} reused={sh.reused} pages={sh.pages} multipage={if sh.pages ≥ 2 then 1 else 0} cancels={st.cancels} pending_at_drop={st.pendingAtDrop} {kind}=1"

/-- judge one line's allocator events: shadow first (reject), then model (diverge) -/
def judgeEvs (sh : Shadow) (impl model : List Ev) : Except String Shadow :=
  match AllocSafe.acceptAll sh impl with
  | .error c => .error s!"kind=reject clause={c} spec=rejects model={showEvs model} impl={showEvs impl}"
  | .ok sh' =>
    if impl != model then .error s!"kind=diverge clause=placement spec=accepts model={showEvs model} impl={showEvs impl}"
    else .ok sh'

/-! ### raw allocator cases -/

def runRaw (id : String) (h : List String) (body : List String) : String := Id.run do
  let P := (kvNat h "page").getD 0
  let orc := orcOf P
  let mut sh : Shadow := { pageSize := P }
  let mut st : Stats := {}
  let mut rs : Alloc.RState := { st := { free := [], pages := [], pageSize := P, allocated := 0 }, live := [], next := 0 }
  let mut keys : List (Nat × Nat) := []
  let mut i := 0
  for line in body do
    if line.startsWith "end" then continue
    i := i + 1
    let (lhs, rhs) := splitArrow line
    let l := words lhs
    let r := words rhs
    let ans := r.head?.getD ""
    let fail (msg : String) : String := s!"fail {id} op={i} line=[{lhs}] {msg}"
    match l with
    | ["new"] =>
      if ans = "refused" then return s!"ok {id} nt=0 refused=1"
      match Alloc.start orc P, (kv r "ev").bind parseEvs with
      | some rs0, some impl =>
        rs := rs0
        let model := (Alloc.newPages { rs0.st with pages := [] } rs0.st).map (ofMEv P)
        match judgeEvs sh impl model with
        | .error m => return fail m
        | .ok sh' => sh := sh'
      | _, _ => return fail "kind=badline"
    | ["alloc", tag, size, alog] =>
      match tag.toNat?, size.toNat?, alog.toNat? with
      | some tag, some size, some alog =>
        let (rs', o, mev) := Alloc.stepEv orc rs (.alloc size alog)
        if ans = "refused" then
          -- the harness does not issue requests for which find_region cannot return
          if o == .diverged || 2 ^ alog > P then continue
          else return fail "kind=badcase detail=refused-but-model-terminates"
        match (kv r "ev").bind parseEvs with
        | none => return fail "kind=badline"
        | some impl =>
          if ans = "runaway" then
            -- the observer's page limit cut off a find_region that kept adding pages
            if o == .diverged then
              st := { st with ops := st.ops + 1 }
              return (verdictOk id "raw" sh st) ++ " runaway=1"
            else return fail s!"kind=reject clause=nontermination spec=request-in-range model=terminates impl={showEvs impl}"
          if ans = "panic" then return fail s!"kind=reject clause=panic impl={showEvs impl}"
          let model := mev.map (ofMEv P)
          match judgeEvs sh impl model with
          | .error m => return fail m
          | .ok sh' => sh := sh'
          let mans := match o with | .allocated _ => "ok" | .failed => "err" | .diverged => "diverged" | _ => "internal"
          if ans != mans then return fail s!"kind=diverge clause=answer model={mans} impl={ans}"
          match o with
          | .allocated _ => keys := (tag, rs.next) :: keys
          | _ => pure ()
          rs := rs'
          st := { st with ops := st.ops + 1 }
      | _, _, _ => return fail "kind=badline"
    | ["free", tag] =>
      match tag.toNat?.bind (keys.lookup ·), (kv r "ev").bind parseEvs with
      | some key, some impl =>
        if ans = "panic" then return fail s!"kind=reject clause=panic impl={showEvs impl}"
        if kvNat r "intact" != some 1 then return fail "kind=reject clause=live-block-overwritten"
        let (rs', o, mev) := Alloc.stepEv orc rs (.free key)
        match judgeEvs sh impl (mev.map (ofMEv P)) with
        | .error m => return fail m
        | .ok sh' => sh := sh'
        if o != .freed then return fail s!"kind=diverge clause=answer model-refuses-free"
        rs := rs'
        st := { st with ops := st.ops + 1 }
      | _, _ => return fail "kind=badline"
    | ["abort"] => return fail "kind=reject clause=harness-guard detail=the-harness-saw-a-memory-safety-violation-the-checker-accepted"
    | ["drop"] =>
      if ans = "panic" then return fail "kind=reject clause=panic"
      if kvNat r "intact" != some 1 then return fail "kind=reject clause=live-block-overwritten"
      match kvNat r "mem", kvNat r "npages" with
      | some mem, some np =>
        if mem != AllocSafe.liveBytes sh then
          return fail s!"kind=reject clause=accounting spec={AllocSafe.liveBytes sh} model={rs.st.allocated} impl={mem}"
        if np != sh.pages then return fail s!"kind=reject clause=page-count spec={sh.pages} impl={np}"
        if mem != rs.st.allocated || np != rs.st.pages.length then
          return fail s!"kind=diverge clause=accounting model={rs.st.allocated}/{rs.st.pages.length} impl={mem}/{np}"
      | _, _ => return fail "kind=badline"
    | _ => return fail "kind=badline"
  return verdictOk id "raw" sh st

/-! ### calendar-queue cases -/

structure Obs where
  ans : String
  len : Nat
  time : Nat
  empty : Bool
deriving DecidableEq

def showObs (o : Obs) : String := s!"{o.ans},len={o.len},time={o.time},empty={if o.empty then 1 else 0}"

def showCq (bits : Nat) : CQRun.Out → String
  | .added => "ok" | .rejected => "panic" | .cancelDone => "ok" | .badHandle => "bad-handle"
  | .fetched v t => s!"{v % 2 ^ bits}@{t}" | .empty => "panic" | .internal => "internal"
  | .peeked none => "none" | .peeked (some t) => s!"{t}"

def showOut (bits : Nat) : CQMem.Out → String
  | .cq o => showCq bits o
  | .created => "ok" | .createFailed => "panic" | .dropped => "ok" | .diverged => "diverged"
  | .internal => "internal"

def runCq (id : String) (h : List String) (body : List String) : String := Id.run do
  let n := (kvNat h "n").getD 0
  let t := (kvNat h "t").getD 0
  let bits := (kvNat h "bits").getD 64
  let dc := (kvNat h "dc").getD 0 != 0
  if n = 0 || t = 0 then return s!"fail {id} op=0 kind=badcase detail=n-or-t-zero"
  let tr (l : List Nat) : List Nat := l.map (· % 2 ^ bits)
  let mut P := 0
  let mut sh : Shadow := { pageSize := 0 }
  let mut st : Stats := {}
  let mut ms : Option CQMem.State := none
  let mut ss : FES.State × CQRun.Handles := (FES.init, [])
  let mut i := 0
  for line in body do
    if line.startsWith "end" then continue
    i := i + 1
    let (lhs, rhs) := splitArrow line
    let l := words lhs
    let r := words rhs
    let ans := r.head?.getD ""
    let fail (msg : String) : String := s!"fail {id} op={i} line=[{lhs}] {msg}"
    if l == ["new"] then
      match kvNat r "nsize", (kvNat r "nalign").bind log2?, kvNat r "psz" with
      | some nsize, some nlog, some psz =>
        P := psz
        sh := { pageSize := P }
        let (m, o, mev) := CQMem.create (orcOf P) n t P nsize nlog
        if ans = "refused" then
          if o == .diverged then return s!"ok {id} nt=0 refused=1"
          else return fail "kind=badcase detail=refused-but-model-terminates"
        match (kv r "ev").bind parseEvs with
        | none => return fail "kind=badline"
        | some impl =>
          if ans = "runaway" then
            if o == .diverged then return s!"ok {id} nt=0 runaway=1"
            else return fail s!"kind=reject clause=nontermination spec=node-in-range model=terminates impl={showEvs impl}"
          match judgeEvs sh impl (mev.map (ofMEv P)) with
          | .error m => return fail m
          | .ok sh' => sh := sh'
          if ans != showOut bits o then return fail s!"kind=diverge clause=answer model={showOut bits o} impl={ans}"
          if ans = "panic" then return s!"ok {id} nt=0 node_exceeds_page=1"
          ms := m
      | _, _, _ => return fail "kind=badline"
      continue
    if l == ["abort"] then
      return fail "kind=reject clause=harness-guard detail=the-harness-saw-a-memory-safety-violation-the-checker-accepted"
    match ms with
    | none => return fail "kind=badline detail=no-queue"
    | some m =>
      let orc := orcOf P
      match (kv r "ev").bind parseEvs, (kv r "d").bind parseDrops with
      | some impl, some idrops =>
        if l == ["drop"] then
          if ans = "panic" then return fail s!"kind=reject clause=panic impl={showEvs impl}"
          -- bookkeeping before the drop
          match kvNat r "mem", kvNat r "npages" with
          | some mem, some np =>
            if mem != AllocSafe.liveBytes sh then
              return fail s!"kind=reject clause=accounting spec={AllocSafe.liveBytes sh} model={m.a.st.allocated} impl={mem}"
            if np != sh.pages then return fail s!"kind=reject clause=page-count spec={sh.pages} impl={np}"
            if mem != m.a.st.allocated then return fail s!"kind=diverge clause=accounting model={m.a.st.allocated} impl={mem}"
          | _, _ => return fail "kind=badline"
          let res := CQMem.drop orc m
          let pend := (ss.1.zero ++ ss.1.pend).map (·.val)
          st := { st with pendingAtDrop := pend.length }
          if dc then
            if (kv r "bad").getD "?" != "-" then
              return fail s!"kind=reject clause=drop-count created:dropped={(kv r "bad").getD "?"}"
            if sortNats idrops != sortNats (tr pend) then
              return fail s!"kind=reject clause=pending-not-dropped-once spec={showNats (sortNats (tr pend))} impl={showNats (sortNats idrops)}"
          match judgeEvs sh impl (res.evs.map (ofMEv P)) with
          | .error e => return fail e
          | .ok sh' => sh := sh'
          if !sh.live.isEmpty then return fail s!"kind=reject clause=nodes-not-released live={sh.live.length}"
          if dc && idrops != tr res.drops then
            return fail s!"kind=diverge clause=drop-order model={showNats (tr res.drops)} impl={showNats idrops}"
          if res.out != .dropped then return fail "kind=diverge clause=answer model=internal"
          ms := some res.st
          continue
        match kvNat r "len", kvNat r "time", kvNat r "empty" with
        | some len, some time, some empty =>
          let obs : Obs := ⟨ans, len, time, empty != 0⟩
          -- the operation
          let op? : Option CQRun.Op := match l with
            | ["add", tm, v] => match tm.toNat?, v.toNat? with
              | some tm, some v => some (.add tm v)
              | _, _ => none
            | ["cancel", k] => k.toNat?.map .cancel
            | ["fetch"] => some .fetch
            | ["peek"] => some .peek
            | _ => none
          match op? with
          | none => return fail "kind=badline"
          | some op =>
            st := { st with ops := st.ops + 1 }
            -- abstract spec
            let (ss', so) := CQRun.sstep ss op
            let sobs : Obs := ⟨showCq bits so, FES.len ss'.1, ss'.1.cur, FES.len ss'.1 == 0⟩
            let sdrops : List Nat := match op, so with
              | .add _ v, .rejected => [v]
              | .cancel _, _ =>
                ((ss.1.zero ++ ss.1.pend).filter fun e => !((ss'.1.zero ++ ss'.1.pend).any (·.id == e.id))).map (·.val)
              | _, _ => []
            if let .cancel _ := op then
              if !sdrops.isEmpty then st := { st with cancels := st.cancels + 1 }
            -- model
            let res := CQMem.step orc m op
            let mobs : Obs := ⟨showOut bits res.out, res.st.q.1.len, res.st.q.1.tcur, res.st.q.1.len == 0⟩
            -- judge: spec first
            if obs != sobs then
              return fail s!"kind=reject clause=queue-answer spec={showObs sobs} model={showObs mobs} impl={showObs obs}"
            if l == ["fetch"] && ans != "panic" && kvNat r "intact" != some 1 then
              return fail "kind=reject clause=payload-damaged"
            if dc && sortNats idrops != sortNats (tr sdrops) then
              return fail s!"kind=reject clause=payload-drops spec={showNats (tr sdrops)} model={showNats (tr res.drops)} impl={showNats idrops}"
            match judgeEvs sh impl (res.evs.map (ofMEv P)) with
            | .error e => return fail e
            | .ok sh' => sh := sh'
            if obs != mobs then
              return fail s!"kind=diverge clause=queue-answer spec={showObs sobs} model={showObs mobs} impl={showObs obs}"
            if dc && idrops != tr res.drops then
              return fail s!"kind=diverge clause=drop-order model={showNats (tr res.drops)} impl={showNats idrops}"
            ms := some res.st
            ss := ss'
        | _, _, _ => return fail "kind=badline"
      | _, _ => return fail "kind=badline"
  return verdictOk id "cq" sh st

def runCase (c : Case) : String :=
  let h := words c.header
  let id := (h[1]?).getD "?"
  match kv h "kind" with
  | some "raw" => runRaw id h c.body
  | some "cq" => runCq id h c.body
  | _ => s!"fail {id} op=0 kind=badcase detail=unknown-kind"

def main (stdin : IO.FS.Stream) : IO Unit := do
  let cases ← readCases stdin
  for c in cases do
    IO.println (runCase c)

end Driver.C15

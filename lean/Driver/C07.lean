/-
Driver for C07: replays the event log of a real des simulation (harness/src/c07.rs) through
the channel model (`ChanRun.step model`) and the abstract server (`ChanRun.step spec`) — the
definitions the theorems in Props/C07.lean are about.

The log is in dispatch order.  Offers are explicit (`ev offer`); dispatches of
`ChannelUnbusyNotif` are internal to des and are reconstructed: an unbusy that starts queued
messages shows as `ev deq` lines (the channel probe fired outside a `send`), one that finds the
buffer empty is placed where event order forces it (before any later event; at a tie according
to whether the implementation was still busy).  Arrivals (`ev rx`) are replayed as `deliver`
steps: the model world contains the kernel's tie rule for the channel's own events, so the order
of unbusy dispatches and deliveries is checked against it.  Independently of the model, with zero
jitter every arrival must be the oldest undelivered message (`tie-overtake` otherwise).
If the implementation dispatched channel events in an order the kernel model excludes, the replay
goes on with the implementation's order (to look for a concrete violation of the property) and the
case fails as `diverge` at its end.
-/
import Desverif.Model.ChanRun
import Driver.Common
namespace Driver.C07
open ChanRun Driver
open Chan (Msg Metrics DropB Fate)

structure IObs where
  busy : Bool
  tft : Nat
  qb : Option Nat
  qp : Option Nat
deriving Repr

inductive Ev
  | obs (t : Nat) (o : IObs)
  | offer (t tag len tx : Nat) (started : Bool) (o : IObs)
  | deq (t tag : Nat)
  | rx (t tag : Nat) (o : IObs)
  | fin (t : Nat) (o : IObs) (err : Nat)
deriving Repr

instance : Inhabited Ev := ⟨.deq 0 0⟩

def parseObs (toks : List String) : Option IObs :=
  match kvNat toks "busy", kvNat toks "tft" with
  | some b, some f => some ⟨b != 0, f, kvNat toks "qb", kvNat toks "qp"⟩
  | _, _ => none

def parseEv (line : String) : Option Ev :=
  let toks := words line
  match toks with
  | "ev" :: kind :: rest =>
    match kvNat rest "t" with
    | none => none
    | some t =>
      if kind = "obs" then (parseObs rest).map (Ev.obs t)
      else if kind = "offer" then
        match kvNat rest "tag", kvNat rest "len", kvNat rest "tx", kvNat rest "started", parseObs rest with
        | some tag, some len, some tx, some st, some o => some (.offer t tag len tx (st != 0) o)
        | _, _, _, _, _ => none
      else if kind = "deq" then (kvNat rest "tag").map (Ev.deq t)
      else if kind = "rx" then
        match kvNat rest "tag", parseObs rest with
        | some tag, some o => some (.rx t tag o)
        | _, _ => none
      else if kind = "fin" then
        match parseObs rest, kvNat rest "err" with
        | some o, some e => some (.fin t o e)
        | _, _ => none
      else none
  | _ => none

def parseDrop (s : String) : Option DropB :=
  if s = "drop" then some .drop
  else if s = "qinf" then some (.queue none)
  else if s.startsWith "q" then ((s.drop 1).toString.toNat?).map fun n => DropB.queue (some n)
  else none

def showObs (o : Obs) : String := s!"busy={if o.busy then 1 else 0},tft={o.finish},qb={o.qbytes},qp={o.qlen}"
def showIObs (o : IObs) : String :=
  s!"busy={if o.busy then 1 else 0},tft={o.tft},qb={(o.qb.map toString).getD "-"},qp={(o.qp.map toString).getD "-"}"

/-- implementation observation vs. model/spec observation (queue content is visible only while busy) -/
def obsAgree (i : IObs) (o : Obs) : Bool :=
  i.busy == o.busy && i.tft == o.finish &&
  (match i.qb with | some b => b == o.qbytes | none => true) &&
  (match i.qp with | some p => p == o.qlen | none => true)

def showFate : Fate → String
  | .started => "started" | .queued => "queued" | .droppedBusy => "dropped-busy" | .droppedFull => "dropped-full"

structure Stats where
  offers : Nat := 0
  started : Nat := 0
  queued : Nat := 0
  dropBusy : Nat := 0
  dropFull : Nat := 0
  unbusies : Nat := 0
  dequeued : Nat := 0
  multiDrain : Nat := 0     -- one unbusy started ≥ 2 queued messages (zero-time transmissions)
  tieBusy : Nat := 0        -- sender handler at the very instant of the pending unbusy, dispatched before it
  tieIdle : Nat := 0        -- … dispatched after it
  zeroTx : Nat := 0
  delivered : Nat := 0
  tieDeliver : Nat := 0     -- arrival while another exit event with the same timestamp is pending
  tieExitUnbusy : Nat := 0  -- arrival at the very instant of the pending unbusy notification

structure St where
  wm : World Chan.State
  ws : World ChanSrv.Srv
  delivered : List Nat := []      -- ids received so far
  soft : Option String := none    -- first tolerated disagreement with the kernel model
  st : Stats := {}

def ids (l : List (Nat × Msg)) : List Nat := l.map (·.2.id)

/-- put the pending unbusy notification first in scheduling order (the implementation dispatched
    it before an exit event with the same key) -/
def unbusyFirst (w : World σ) : World σ :=
  match minTime w.pend with
  | some u => { w with kq := KEv.unbusy u :: w.kq.erase (KEv.unbusy u) }
  | none => w

/-- dispatch one pending unbusy in both worlds; returns the ids it started -/
def doUnbusy (mt : Metrics) (s0 : St) : Except String (St × List Nat) :=
  let s : St :=
    match step spec mt s0.ws .unbusy with
    | .error .order =>
      { s0 with ws := unbusyFirst s0.ws, wm := unbusyFirst s0.wm,
                soft := s0.soft.orElse fun _ => some s!"kind=diverge clause=unbusy-before-exit detail=unbusy-at-{(minTime s0.ws.pend).getD 0}-dispatched-although-an-exit-event-scheduled-earlier-for-the-same-instant-is-pending" }
    | _ => s0
  match step spec mt s.ws .unbusy, step model mt s.wm .unbusy with
  | .ok ws', .ok wm' =>
    let ns := ids (ws'.started.drop s.ws.started.length)
    let nm := ids (wm'.started.drop s.wm.started.length)
    if ns != nm then .error s!"kind=diverge clause=unbusy-started spec={ns} model={nm}"
    else
      let st := { s.st with unbusies := s.st.unbusies + 1, dequeued := s.st.dequeued + ns.length,
                            multiDrain := s.st.multiDrain + (if ns.length ≥ 2 then 1 else 0) }
      .ok ({ s with ws := ws', wm := wm', st := st }, ns)
  | .error .order, _ => .error s!"kind=reject clause=unbusy-order detail=an-exit-event-due-earlier-is-still-undelivered pend={s.ws.pend} undelivered={(s.ws.exits.filter fun x => !(s.delivered.contains x.id)).map fun x => (x.time, x.id)}"
  | .error e, _ => .error s!"kind=reject clause=unbusy-step spec-error={repr e}"
  | _, .error e => .error s!"kind=diverge clause=unbusy-step model-error={repr e}"

/-- the implementation delivered `ex`: replay it as a `deliver` step; if the kernel model would have
    dispatched something else, follow the implementation and remember the disagreement -/
def forceDeliver (ex : Exit) (w : World σ) : World σ :=
  { w with clock := ex.time, kq := w.kq.erase (KEv.exit ex), delivered := w.delivered ++ [ex.id] }

def doDeliver (mt : Metrics) (s : St) (ex : Exit) : St :=
  match step spec mt s.ws .deliver, step model mt s.wm .deliver with
  | .ok ws', .ok wm' =>
    if ws'.delivered.getLast? == some ex.id && wm'.delivered.getLast? == some ex.id then
      { s with ws := ws', wm := wm' }
    else
      { s with ws := forceDeliver ex s.ws, wm := forceDeliver ex s.wm,
               soft := s.soft.orElse fun _ => some s!"kind=diverge clause=delivery-order impl-delivered={ex.id} kernel-model-next={(ws'.delivered.getLast?).getD 0} t={ex.time}" }
  | _, _ =>
    { s with ws := forceDeliver ex s.ws, wm := forceDeliver ex s.wm,
             soft := s.soft.orElse fun _ => some s!"kind=diverge clause=delivery-order impl-delivered={ex.id} kernel-model-next=unbusy-or-none t={ex.time}" }

/-- dispatch the unbusy notifications that event order forces before an event at time `t`
    (`tie`: also one due exactly at `t`).  The log showed no transmission start, so none may start. -/
def catchUp (mt : Metrics) (t : Nat) (tie : Bool) (s0 : St) : Except String St := do
  let mut s := s0
  for _ in [0:s0.ws.pend.length + 1] do
    match minTime s.ws.pend with
    | none => break
    | some u =>
      if u < t || (tie && u == t) then
        let (s', started) ← doUnbusy mt s
        if !started.isEmpty then
          throw s!"kind=reject clause=stranded detail=unbusy-at-{u}-must-start-{started}-implementation-started-none-before-t={t}"
        s := s'
      else break
  return s

def checkObs (what : String) (i : IObs) (s : St) : Except String Unit :=
  let os := spec.obs s.ws.chan
  let om := model.obs s.wm.chan
  if !obsAgree i os then .error s!"kind=reject clause={what} spec={showObs os} model={showObs om} impl={showIObs i}"
  else if !obsAgree i om then .error s!"kind=diverge clause={what} spec={showObs os} model={showObs om} impl={showIObs i}"
  else .ok ()

def lastFate (w : World σ) (before : World σ) : Fate :=
  if w.started.length > before.started.length then .started
  else if w.dropBusy.length > before.dropBusy.length then .droppedBusy
  else if w.dropFull.length > before.dropFull.length then .droppedFull
  else .queued

structure Tab where
  tag : Nat
  len : Nat
  tx : Nat
  start : Option Nat
  rx : Option Nat

def runCase (c : Case) : String := Id.run do
  let h := words c.header
  let id := (h[1]?).getD "?"
  let bad (i : Nat) (msg : String) : String := s!"fail {id} op={i} {msg}"
  let some bitrate := kvNat h "bitrate" | return bad 0 "kind=badcase detail=bitrate"
  let some lat := kvNat h "lat" | return bad 0 "kind=badcase detail=lat"
  let some jit := kvNat h "jit" | return bad 0 "kind=badcase detail=jit"
  let some db := (kv h "drop").bind parseDrop | return bad 0 "kind=badcase detail=drop"
  let mt : Metrics := ⟨lat, jit, db⟩
  -- the event log
  let mut evs : Array Ev := #[]
  for line in c.body do
    if line.startsWith "ev " then
      match parseEv line with
      | some e => evs := evs.push e
      | none => return bad 0 s!"kind=badline detail={line}"
    else if line.startsWith "end" then
      if line != "end" then return bad 0 s!"kind=reject clause=panic impl={line}"
  -- pre-pass: per message length, transmission time (read from the implementation), start, arrival
  let mut tab : Array Tab := #[]
  let mut k := 0
  for e in evs do
    k := k + 1
    match e with
    | .offer t tag len tx started _ =>
      if tab.any (·.tag == tag) then return bad k s!"kind=badcase detail=duplicate-tag-{tag}"
      -- calculate_busy against len*8/bitrate in exact arithmetic, ±1ns
      if bitrate == 0 then
        if tx != 0 then return bad k s!"kind=reject clause=tx-formula tag={tag} len={len} bitrate=0 impl-tx={tx}"
      else
        let exact := len * 8 * 1000000000
        let got := tx * bitrate
        if got > exact + bitrate || exact > got + bitrate then
          return bad k s!"kind=reject clause=tx-formula tag={tag} len={len} bitrate={bitrate} impl-tx={tx}"
      tab := tab.push ⟨tag, len, tx, if started then some t else none, none⟩
    | .deq t tag =>
      tab := tab.map fun r => if r.tag == tag && r.start.isNone then { r with start := some t } else r
    | .rx t tag _ =>
      tab := tab.map fun r => if r.tag == tag && r.rx.isNone then { r with rx := some t } else r
    | _ => pure ()
  -- jitter sample of each delivered message: arrival − start − tx − latency ∈ [0, jitter)  (= 0 without jitter)
  let mut msgs : Array Msg := #[]
  for r in tab do
    match r.start, r.rx with
    | some s, some a =>
      if a < s + r.tx + lat then
        return bad 0 s!"kind=reject clause=delivery-too-early tag={r.tag} start={s} tx={r.tx} lat={lat} arrival={a}"
      let j := a - (s + r.tx + lat)
      if j != 0 && j ≥ jit then
        return bad 0 s!"kind=reject clause=delivery-too-late tag={r.tag} start={s} tx={r.tx} lat={lat} jit={jit} arrival={a}"
      msgs := msgs.push ⟨r.tag, r.len, r.tx, j⟩
    | _, _ => msgs := msgs.push ⟨r.tag, r.len, r.tx, 0⟩
  let msgOf (tag : Nat) : Option Msg := msgs.find? (·.id == tag)
  -- replay
  let mut s : St := { wm := World.init model, ws := World.init spec }
  let mut i := 0
  let mut idx := 0
  let n := evs.size
  let mut sawFin := false
  while idx < n do
    let e := evs[idx]!
    idx := idx + 1
    i := i + 1
    match e with
    | .obs t o =>
      if s.ws.pend.any (· == t) then
        s := { s with st := { s.st with tieBusy := s.st.tieBusy + (if o.busy then 1 else 0),
                                        tieIdle := s.st.tieIdle + (if o.busy then 0 else 1) } }
      match catchUp mt t (!o.busy) s with
      | .error m => return bad i m
      | .ok s' => s := s'
      match checkObs "handler-entry-state" o s with
      | .error m => return bad i s!"{m} t={t}"
      | .ok _ => pure ()
    | .offer t tag _ tx started o =>
      let some m := msgOf tag | return bad i "kind=badcase detail=msg-table"
      match catchUp mt t started s with
      | .error m => return bad i m
      | .ok s' => s := s'
      match step spec mt s.ws (.offer t m), step model mt s.wm (.offer t m) with
      | .ok ws', .ok wm' =>
        let fs := lastFate ws' s.ws
        let fm := lastFate wm' s.wm
        let before := s
        s := { s with ws := ws', wm := wm' }
        if started != (fs == .started) then
          return bad i s!"kind=reject clause=fate tag={tag} t={t} spec={showFate fs} model={showFate fm} impl-started={started}"
        if fm != fs then
          return bad i s!"kind=diverge clause=fate tag={tag} t={t} spec={showFate fs} model={showFate fm} impl-started={started}"
        match checkObs "state-after-send" o s with
        | .error msg => return bad i s!"{msg} tag={tag} t={t} spec-fate={showFate fs}"
        | .ok _ => pure ()
        let st := before.st
        s := { s with st := { st with
          offers := st.offers + 1,
          started := st.started + (if fs == .started then 1 else 0),
          queued := st.queued + (if fs == .queued then 1 else 0),
          dropBusy := st.dropBusy + (if fs == .droppedBusy then 1 else 0),
          dropFull := st.dropFull + (if fs == .droppedFull then 1 else 0),
          zeroTx := st.zeroTx + (if tx == 0 then 1 else 0) } }
      | .error .order, _ =>
        return bad i s!"kind=reject clause=lost-or-late detail=offer-at-{t}-while-an-earlier-channel-event-is-pending pend={s.ws.pend} undelivered={(s.ws.exits.filter fun x => !(s.delivered.contains x.id)).map fun x => (x.time, x.id)}"
      | .error er, _ => return bad i s!"kind=reject clause=offer-step spec-error={repr er} t={t}"
      | _, .error er => return bad i s!"kind=diverge clause=offer-step model-error={repr er} t={t}"
    | .deq t tag =>
      -- the maximal run of consecutive `deq` lines is one unbusy dispatch
      let mut tags : List Nat := [tag]
      while idx < n do
        match evs[idx]! with
        | .deq t' tag' =>
          if t' == t then
            tags := tags ++ [tag']
            idx := idx + 1
          else break
        | _ => break
      match catchUp mt t false s with
      | .error m => return bad i m
      | .ok s' => s := s'
      match minTime s.ws.pend with
      | some u =>
        if u != t then
          return bad i s!"kind=reject clause=start-time tags={tags} impl-start={t} spec-next-unbusy={u}"
      | none => return bad i s!"kind=reject clause=start-time tags={tags} impl-start={t} spec-next-unbusy=none"
      match doUnbusy mt s with
      | .error m => return bad i m
      | .ok (s', startedIds) =>
        s := s'
        if startedIds != tags then
          return bad i s!"kind=reject clause=fifo-dequeue t={t} spec-started={startedIds} impl-started={tags}"
    | .rx t tag o =>
      match catchUp mt t (!o.busy) s with
      | .error m => return bad i m
      | .ok s' => s := s'
      match checkObs "state-at-arrival" o s with
      | .error m => return bad i s!"{m} t={t}"
      | .ok _ => pure ()
      if s.delivered.contains tag then
        return bad i s!"kind=reject clause=duplicate-delivery tag={tag} t={t}"
      let exs := s.ws.exits
      match exs.find? (·.id == tag) with
      | none => return bad i s!"kind=reject clause=phantom-delivery tag={tag} t={t}"
      | some ex =>
        if ex.time != t then
          return bad i s!"kind=reject clause=delivery-time tag={tag} spec={ex.time} impl={t}"
        let undelivered := exs.filter fun x => !(s.delivered.contains x.id) && x.id != tag
        match undelivered.find? (·.time < t) with
        | some x => return bad i s!"kind=reject clause=lost-or-late tag={x.id} spec-time={x.time} now={t}"
        | none => pure ()
        if jit == 0 then
          -- deliveries preserve offer order: nothing scheduled earlier for the same instant may still be pending
          let before := exs.takeWhile (·.id != tag)
          match before.find? fun x => x.time == t && !(s.delivered.contains x.id) with
          | some x =>
            return bad i s!"kind=reject clause=tie-overtake tag={tag} overtakes={x.id} t={t} sched-first={x.sched} sched-second={ex.sched} lat={lat}"
          | none => pure ()
        let tieD := undelivered.any (·.time == t)
        let tieU := s.ws.pend.any (· == t)
        s := doDeliver mt s ex
        s := { s with delivered := s.delivered ++ [tag],
                      st := { s.st with delivered := s.st.delivered + 1,
                                        tieDeliver := s.st.tieDeliver + (if tieD then 1 else 0),
                                        tieExitUnbusy := s.st.tieExitUnbusy + (if tieU then 1 else 0) } }
    | .fin t o err =>
      sawFin := true
      if err != 0 then return bad i s!"kind=reject clause=simulation-error err={err}"
      -- the simulation ran out of events: every pending unbusy was dispatched
      match catchUp mt (t + 1) false s with
      | .error m => return bad i m
      | .ok s' => s := s'
      if !s.ws.pend.isEmpty then
        return bad i s!"kind=reject clause=unbusy-after-end pend={s.ws.pend} t={t}"
      match checkObs "final-state" o s with
      | .error m => return bad i m
      | .ok _ => pure ()
      let lost := (s.ws.exits.filter fun x => !(s.delivered.contains x.id)).map (·.id)
      if !lost.isEmpty then
        return bad i s!"kind=reject clause=lost tags={lost}"
      if (spec.obs s.ws.chan).qlen != 0 then
        return bad i s!"kind=reject clause=queue-not-empty-at-end qlen={(spec.obs s.ws.chan).qlen}"
  if !sawFin then return bad i "kind=badcase detail=no-fin-line"
  if let some m := s.soft then return bad i m
  let st := s.st
  let nt := (st.queued + st.dropBusy + st.dropFull > 0) && st.started + st.dequeued ≥ 2
  return s!"ok {id} nt={if nt then 1 else 0} offers={st.offers} started={st.started} queued={st.queued} dropbusy={st.dropBusy} dropfull={st.dropFull} unbusies={st.unbusies} dequeued={st.dequeued} multidrain={st.multiDrain} tiebusy={st.tieBusy} tieidle={st.tieIdle} zerotx={st.zeroTx} delivered={st.delivered} tiedeliver={st.tieDeliver} tieexitunbusy={st.tieExitUnbusy}"

def main (stdin : IO.FS.Stream) : IO Unit := do
  let cases ← readCases stdin
  for c in cases do
    IO.println (runCase c)

end Driver.C07

/-
Driver for C18: replays a harness transcript through the NDL model (`Ndl.parse*`, `Ndl.transform`,
`Ndl.instantiate`) and the denotation (`Ndl.denote`) — the definitions Props/C18.lean is about.

Per case: every `mod/gate/sub/conn` line is parsed with the model's `FromStr` and compared with the
implementation's answer; the document is assembled with `Ndl.parseDef`, put into the hash-map
iteration order the implementation reported (`L=`), elaborated and instantiated, and the canonical
dumps are compared with what `transform` / `nodes_from_ndl` produced.
-/
import Desverif.Spec.Ndl
import Driver.Common
namespace Driver.C18
open Driver Ndl

/-! ### escaping (mirror of harness/src/c18.rs) -/

def hexVal (s : List Char) : Option Nat :=
  s.foldl (fun acc c =>
    match acc with
    | none => none
    | some v =>
      if '0' ≤ c ∧ c ≤ '9' then some (v * 16 + (c.toNat - '0'.toNat))
      else if 'a' ≤ c ∧ c ≤ 'f' then some (v * 16 + (c.toNat - 'a'.toNat + 10))
      else if 'A' ≤ c ∧ c ≤ 'F' then some (v * 16 + (c.toNat - 'A'.toNat + 10))
      else none) (some 0)

partial def unescL : List Char → List Char
  | [] => []
  | '%' :: r =>
    let h := r.takeWhile (· ≠ ';')
    let rest := (r.dropWhile (· ≠ ';')).drop 1
    if h.isEmpty then unescL rest
    else match hexVal h with
      | some v => Char.ofNat v :: unescL rest
      | none => unescL rest
  | c :: r => c :: unescL r

def unesc (s : String) : Str := unescL s.toList

def e (s : Str) : String :=
  if s.isEmpty then "%;"
  else String.join (s.map fun c =>
    if c.isAlphanum || c = '_' then String.singleton c
    else "%" ++ String.ofList (Nat.toDigits 16 c.toNat) ++ ";")

/-! ### canonical dumps -/

def dField (f : FieldDef) : String :=
  match f.kard with
  | .atom => e f.ident
  | .cluster n => s!"{e f.ident}[{n}]"

def dGen (t : TypClause GenericsDef) : String :=
  s!"{e t.ident}({",".intercalate (t.args.map fun g => s!"{e g.binding}<{e g.bound}")})"

def dTyp (t : TypClause Str) : String := s!"{e t.ident}({",".intercalate (t.args.map e)})"

def dEp (p : EndpointDef) : String := "/".intercalate (p.accessors.map dField)

def dLink (l : Link) : String :=
  let q := match l.queuesize with
    | some q => toString q
    | none => "-"
  s!"{l.latency}/{l.jitter}/{l.bitrate}/{q}"

def dAcc (a : List Accessor) : String :=
  "/".intercalate (a.map fun x => match x.index with
    | some i => s!"{e x.name}[{i}]"
    | none => e x.name)

def sortStrings (l : List String) : List String := (l.toArray.qsort (· < ·)).toList

partial def dNode : Node → String
  | .mk typ subs gates conns =>
    let g := sortStrings (gates.map dField)
    let s := subs.map fun (f, n) => s!"{dField f}={dNode n}"
    let c := conns.map fun c =>
      let l := match c.link with
        | some l => dLink l
        | none => "-"
      s!"{dAcc c.lhs}~{dAcc c.rhs}@{l}"
    "N{" ++ s!"{e typ};{",".intercalate g};{",".intercalate s};{",".intercalate c}" ++ "}"

def kindName : Kind → String
  | .symbolAlreadyDefined => "SymbolAlreadyDefined"
  | .unknownLink => "UnknownLink"
  | .unknownModule => "UnknownModule"
  | .unresolvableDependency => "UnresolvableDependency"
  | .invalidGate => "InvalidGate"
  | .invalidSubmodule => "InvalidSubmodule"
  | .unknownGateInConnection => "UnknownGateInConnection"
  | .unknownSubmoduleInConnection => "UnknownSubmoduleInConnection"
  | .connectionIndexOutOfBounds => "ConnectionIndexOutOfBounds"
  | .unequalPeers => "UnequalPeers"
  | .invalidTypStatement => "InvalidTypStatement"
  | .assignedTypDoesNotConformToInterface => "AssignedTypDoesNotConformToInterface"
  | .missingRegistrySymbol => "MissingRegistrySymbol"

def dFail : Fail → String
  | .internal _ => "panic"
  | .parse => "parse"
  | .err k d sp =>
    let o (x : Option Str) : String := match x with
      | some s => e s
      | none => "-"
    let c := match sp.connection with
      | some c => toString c
      | none => "-"
    s!"err:{kindName k}:{"|".intercalate (d.map e)}@{o sp.module};{o sp.submodule};{o sp.gate};{c}"

def dMetrics (m : Option Metrics) : String :=
  match m with
  | none => "-"
  | some m => s!"{m.bitrate}/{m.latency}/{m.jitter}/{m.queue}"

def dWorld (w : World) : String :=
  let slot (s : Option Slot) : String :=
    match s with
    | none => "-"
    | some s =>
      match w.gate (s.peerPath, s.peerIdx) with
      | some g => s!"{e s.peerPath}#{e g.name}:{g.pos}@{dMetrics s.chan}"
      | none => "?"
  let mods := w.map fun m =>
    let gs := sortStrings (m.gates.map fun g =>
      s!"{e g.name}:{g.size}:{g.pos}:{slot g.slots[0]?}|{slot g.slots[1]?}")
    "M{" ++ s!"{e m.path};{e m.sym};{",".intercalate gs}" ++ "}"
  "ok:" ++ String.join (sortStrings mods)

def dBuild : Except Fail World → String
  | .ok w => dWorld w
  | .error f => dFail f

/-! ### script → document -/

structure MAcc where
  tag : String
  raw : RawModule
  subTags : List (String × Str)     -- (stag, raw field key), in script order

structure Doc where
  entry : Str := []
  links : List (Str × Link) := []
  mods : List MAcc := []

def Doc.raw (d : Doc) : RawDef := ⟨d.entry, d.mods.map (·.raw), d.links⟩

def Doc.modify (d : Doc) (tag : String) (f : MAcc → MAcc) : Doc :=
  { d with mods := d.mods.map fun m => if m.tag = tag then f m else m }

def Doc.has (d : Doc) (tag : String) : Bool := d.mods.any (·.tag = tag)

def optStr (s : String) : Option Str := if s = "-" then none else some (unesc s)

def registry (s : Str) : Bool :=
  ["A", "B", "C", "D", "E", "F", "G", "H", "I", "J", "K", "L", "T", "Main"].any (·.toList = s)

/-- put the parsed document into the iteration order the implementation observed -/
def applyLayout (doc : Doc) (d : Def) (layout : String) : Option Def := do
  let items := if layout.isEmpty then [] else layout.splitOn ","
  let mut ms : List (TypClause GenericsDef × ModuleDef) := []
  for it in items do
    match it.splitOn ":" with
    | [tag, subs] =>
      let m ← doc.mods.find? (·.tag = tag)
      let key ← (parseTypClause parseGenerics m.raw.key).toOption
      let md ← d.modules.lookup key
      let stags := if subs.isEmpty then [] else subs.splitOn "."
      let mut ss : List (FieldDef × TypClause Str) := []
      for st in stags do
        let (_, rawf) ← m.subTags.find? (·.1 = st)
        let f ← (parseField rawf).toOption
        let t ← md.submodules.lookup f
        ss := ss ++ [(f, t)]
      if ss.length ≠ md.submodules.length then none
      ms := ms ++ [(key, { md with submodules := ss })]
    | _ => none
  if ms.length ≠ d.modules.length then none
  -- every key exactly once
  if (ms.map (·.1)).eraseDups.length ≠ ms.length then none
  return { d with modules := ms }

/-- gate identifiers that occur with two different cardinalities in one module (own or inherited):
    the hash-set iteration order then decides which one a connection finds -/
def ambiguousGates (d : Def) : Bool :=
  let gatesOf (name : Str) : List FieldDef :=
    (d.modules.filter (·.1.ident = name)).flatMap (·.2.gates)
  let rec eff (fuel : Nat) (name : Str) : List FieldDef :=
    match fuel with
    | 0 => []
    | fuel + 1 =>
      gatesOf name ++ ((d.modules.filter (·.1.ident = name)).flatMap fun km =>
        match km.2.inherit with
        | some p => eff fuel p
        | none => [])
  d.modules.any fun km =>
    let gs := (eff (d.modules.length + 1) km.1.ident).eraseDups
    (gs.map (·.ident)).eraseDups.length ≠ gs.length

structure Stats where
  clauses : Nat := 0
  parseErr : Nat := 0
  tOk : Nat := 0
  tErr : Nat := 0
  bOk : Nat := 0
  bErr : Nat := 0
  unreal : Nat := 0
  mods : Nat := 0
  conns : Nat := 0
  weak : Nat := 0
  generic : Nat := 0
  inherit : Nat := 0
  specOps : Nat := 0

def splitLR (ans : String) : String × String :=
  -- "L=<layout> R=<result>"
  match ans.splitOn " R=" with
  | [l, r] => ((l.drop 2).toString, r)
  | _ => ("", ans)

def countConns (w : World) : Nat := (w.map fun m => (m.gates.map (·.slots.length)).sum).sum / 2

def runCase (c : Case) : String := Id.run do
  let h := words c.header
  let id := (h[1]?).getD "?"
  let mut doc : Doc := {}
  let mut st : Stats := {}
  let mut i := 0
  for line in c.body do
    if line.startsWith "end" then continue
    i := i + 1
    let (lhs, ans) := splitArrow line
    let l := words lhs
    let chk (what : String) (model : String) : Option String :=
      if model = ans then none
      else if ans = "panic" then
        some s!"fail {id} op={i} kind=reject clause=parse_total line=[{lhs}] what={what} spec=no-panic model={model} impl=panic"
      else some s!"fail {id} op={i} kind=diverge line=[{lhs}] what={what} model={model} impl={ans}"
    match l with
    | ["entry", s] => doc := { doc with entry := unesc s }
    | ["link", name, lat, jit, bit, q] =>
      let lk : Link := ⟨lat.toInt?.getD 0, jit.toInt?.getD 0, bit.toInt?.getD 0,
        if q = "-" then none else some (q.toInt?.getD 0)⟩
      doc := { doc with links := doc.links ++ [(unesc name, lk)] }
    | ["mod", tag, raw] =>
      if doc.has tag then continue
      let raw := unesc raw
      doc := { doc with mods := doc.mods ++ [⟨tag, ⟨raw, none, [], [], []⟩, []⟩] }
      st := { st with clauses := st.clauses + 1 }
      let model := match parseTypClause parseGenerics raw with
        | .ok k => s!"ok {dGen k}"
        | .error .parse => "err"
        | .error _ => "panic"
      if model = "err" then st := { st with parseErr := st.parseErr + 1 }
      if let some f := chk "mod" model then return f
    | ["inherit", tag, sym] =>
      doc := doc.modify tag fun m => { m with raw := { m.raw with inherit := some (unesc sym) } }
    | ["gate", tag, raw] =>
      if !doc.has tag then continue
      let raw := unesc raw
      doc := doc.modify tag fun m => { m with raw := { m.raw with gates := m.raw.gates ++ [raw] } }
      st := { st with clauses := st.clauses + 1 }
      let model := match parseField raw with
        | .ok k => s!"ok {dField k}"
        | .error .parse => "err"
        | .error _ => "panic"
      if model = "err" then st := { st with parseErr := st.parseErr + 1 }
      if let some f := chk "gate" model then return f
    | ["sub", tag, stag, rawf, rawt] =>
      if !doc.has tag then continue
      if doc.mods.any (fun m => m.tag = tag && m.subTags.any (·.1 = stag)) then continue
      let (rawf, rawt) := (unesc rawf, unesc rawt)
      doc := doc.modify tag fun m =>
        { m with raw := { m.raw with submodules := m.raw.submodules ++ [(rawf, rawt)] },
                 subTags := m.subTags ++ [(stag, rawf)] }
      st := { st with clauses := st.clauses + 1 }
      let model := match parseField rawf, parseTypClause parseStrArg rawt with
        | .ok f, .ok t => s!"ok {dField f} {dTyp t}"
        | .error (.internal _), _ | _, .error (.internal _) => "panic"
        | _, _ => "err"
      if model = "err" then st := { st with parseErr := st.parseErr + 1 }
      if let some f := chk "sub" model then return f
    | ["conn", tag, a, b, lk] =>
      if !doc.has tag then continue
      let (a, b) := (unesc a, unesc b)
      doc := doc.modify tag fun m =>
        { m with raw := { m.raw with connections := m.raw.connections ++ [⟨a, b, optStr lk⟩] } }
      st := { st with clauses := st.clauses + 1 }
      let model := match parseEndpoint a, parseEndpoint b with
        | .ok x, .ok y => s!"ok {dEp x} {dEp y}"
        | .error (.internal _), _ | _, .error (.internal _) => "panic"
        | _, _ => "err"
      if model = "err" then st := { st with parseErr := st.parseErr + 1 }
      if let some f := chk "conn" model then return f
    | ["yaml"] =>
      let model := match parseDef doc.raw with
        | .ok _ => "same"
        | .error (.internal _) => "panic"
        | .error _ => "err"
      if let some f := chk "yaml" model then return f
    | [op] =>
      if op ≠ "transform" ∧ op ≠ "build" then return s!"fail {id} op={i} kind=badline detail=[{line}]"
      match parseDef doc.raw with
      | .error (.internal w) =>
        return s!"fail {id} op={i} kind=reject clause=parse_total line=[{lhs}] model=internal:{w} impl={ans}"
      | .error _ =>
        if ans ≠ "noparse" then
          return s!"fail {id} op={i} kind=diverge line=[{lhs}] model=noparse impl={ans}"
      | .ok d0 =>
        if ans = "noparse" then
          return s!"fail {id} op={i} kind=diverge line=[{lhs}] model=parsed impl=noparse"
        let (layout, res) := splitLR ans
        match applyLayout doc d0 layout with
        | none => return s!"fail {id} op={i} kind=diverge line=[{lhs}] what=layout model-keys={d0.modules.length} impl={layout}"
        | some d =>
          let weak := ambiguousGates d
          if weak then st := { st with weak := st.weak + 1 }
          let mt := transform d
          if d.modules.any (fun km => !km.1.args.isEmpty) then st := { st with generic := 1 }
          if d.modules.any (fun km => km.2.inherit.isSome) then st := { st with inherit := 1 }
          -- the denotation, where the description is inside the specified fragment
          let useSpec := !weak && !Spec.unsupported d
          if Spec.unsupported d then st := { st with weak := st.weak + 1 }
          if op = "transform" then
            let model := match mt with
              | .ok n => "ok:" ++ dNode n
              | .error f => dFail f
            match mt with
            | .ok _ => st := { st with tOk := st.tOk + 1 }
            | .error _ => st := { st with tErr := st.tErr + 1 }
            if res = "panic" ∧ model ≠ "panic" then
              return s!"fail {id} op={i} kind=reject clause=transform_total line=[{lhs}] spec=no-panic model={model} impl=panic"
            if model = "panic" then
              return s!"fail {id} op={i} kind=reject clause=transform_total line=[{lhs}] model=internal impl={res}"
            if useSpec then
              st := { st with specOps := st.specOps + 1 }
              match Spec.denoteTree d with
              | .ok n =>
                let sp := "ok:" ++ dNode n
                if !res.startsWith "ok:" then
                  return s!"fail {id} op={i} kind=reject clause=error_kinds line=[{lhs}] what=valid-description-rejected spec={sp} model={model} impl={res}"
                if sp ≠ res then
                  return s!"fail {id} op={i} kind=reject clause=sound_complete line=[{lhs}] what=tree spec={sp} model={model} impl={res}"
              | .error f =>
                if res.startsWith "ok:" then
                  return s!"fail {id} op={i} kind=reject clause=error_kinds line=[{lhs}] what=invalid-description-accepted spec={dFail f} model={model} impl={res}"
            if !weak ∧ model ≠ res then
              return s!"fail {id} op={i} kind=diverge line=[{lhs}] what=transform model={model} impl={res}"
          else
            match mt with
            | .error _ =>
              if res ≠ "notransform" ∧ !weak then
                return s!"fail {id} op={i} kind=diverge line=[{lhs}] what=build model=notransform impl={res}"
            | .ok n =>
              let mb := instantiate registry n
              let model := dBuild mb
              match mb with
              | .ok w => st := { st with bOk := st.bOk + 1, mods := st.mods + w.length, conns := st.conns + countConns w }
              | .error (.internal _) => st := { st with unreal := st.unreal + 1 }
              | .error _ => st := { st with bErr := st.bErr + 1 }
              if useSpec then
                st := { st with specOps := st.specOps + 1 }
                let spec := Spec.denote registry d
                let sp := dBuild spec
                match spec with
                | .ok _ =>
                  if sp ≠ res then
                    return s!"fail {id} op={i} kind=reject clause=sound_complete line=[{lhs}] what=simulation spec={sp} model={model} impl={res}"
                | .error _ =>
                  if res.startsWith "ok:" then
                    return s!"fail {id} op={i} kind=reject clause=sound_complete line=[{lhs}] what=unrealisable-built spec={sp} model={model} impl={res}"
              if !weak then
                if model ≠ res then
                  return s!"fail {id} op={i} kind=diverge line=[{lhs}] what=build model={model} impl={res}"
              else if res = "panic" ∧ model ≠ "panic" then
                return s!"fail {id} op={i} kind=reject clause=sound_complete line=[{lhs}] model={model} impl=panic"
    | _ => return s!"fail {id} op={i} kind=badline detail=[{line}]"
  let nt := (st.bOk > 0 ∧ st.mods ≥ 3 ∧ st.conns ≥ 1) ∨ st.tErr > 0 ∨ (st.parseErr > 0 ∧ st.clauses ≥ 3)
  return s!"ok {id} nt={if nt then 1 else 0} clauses={st.clauses} parse_err={st.parseErr} transform_ok={st.tOk} transform_err={st.tErr} build_ok={st.bOk} build_err={st.bErr} unrealisable={st.unreal} modules={st.mods} connections={st.conns} weak={st.weak} generic={st.generic} inherit={st.inherit} spec_compared={st.specOps}"

def main (stdin : IO.FS.Stream) : IO Unit := do
  let cases ← readCases stdin
  for c in cases do
    IO.println (runCase c)

end Driver.C18

/-
Driver for C09 (and, through Driver/C13.lean, C13): builds the `Net.Config` a script describes
(same parsing rules as harness/src/c09.rs), runs the kernel model (`Net.run` — the definitions the
theorems of Props/C09.lean and Props/C13.lean are about) and compares the model's observation
trace and error list with those of the real simulation, entry by entry (`kind=diverge`).
Independently the implementation trace is judged by an acceptance checker that knows nothing of
the model (`kind=reject`): a module that requested shutdown is reset before any other callback of
it starts, shows no observation while it is down, restarts with stage 0 at exactly the requested
time and runs its stages in order; no message is handled after passing a gate of a module that
was down at that instant; nothing of a module runs after a panic of one of its callbacks; the
error list of `run()` is exactly the multiset of uncaught callback panics and joined task panics;
the module context is free after the run.  Some kinds of lines exist for this checker only (the
model does not produce them; they are removed before the comparison): `spw` / `spm` (a task is
spawned, with `tokio::spawn` or `spawn_local`; `spm`: its handle is given to `current().join`) and
`trs n` (task number n resumes) — every task that resumes must have been spawned in the
current incarnation of its module (`task-of-cancelled-incarnation`: a shutdown cancels both kinds)
and, in scripts without panics, resumes exactly at its deadline (`timer-not-at-deadline`); `pes` /
`pee` (`event_start` / `event_end` of a pass-through processing element) — a module that is down
or has panicked gets no event bracket either (`inert-while-down`, `ran-after-panic`).

Cases on which model and implementation agree completely are finally judged against C13 AS
STATED; the two recorded deviations of the code are reported as `kind=deviation` with a tag
(`tag=F-C13b`, `tag=F-C13c`, see `knownDeviation`), which bin/check turns into KNOWN-FINDING lines.
They have a kind of their own because bin/check shrinks a failure by deleting lines while the
verdict keeps its KIND: were they `kind=reject`, an untagged reject in a script that also contains
a recorded deviation would shrink into the deviation and be taken for known.
-/
import Desverif.Model.Net
import Driver.Common
namespace Driver.C09
open Net Driver

structure Script where
  mods : List (String × Nat × Bool) := []          -- name, stages, catch
  links : List Link := []
  acts : List (Nat × String × Nat × Action) := []   -- module, hook, key, action
  inits : List (Nat × Nat × Nat) := []

def modIdx (sc : Script) (name : String) : Option Nat :=
  sc.mods.findIdx? (·.1 == name)

def stripPrefix (s pre : String) : Option String :=
  if s.startsWith pre then some (s.drop pre.length).toString else none

def parseAction (sc : Script) : List String → Option Action
  | ["send", dst, delay, id] =>
    match modIdx sc dst, delay.toNat?, id.toNat? with
    | some d, some delay, some id => some (.send d delay id)
    | _, _, _ => none
  | ["sched", delay, id] =>
    match delay.toNat?, id.toNat? with
    | some delay, some id => some (.sched delay id)
    | _, _ => none
  | "spawn" :: tag :: sleep :: flags =>
    match tag.toNat?, sleep.toNat? with
    | some tag, some sleep =>
      if flags == [] then some (.spawn tag (max sleep 1) false false false)
      else if flags == ["join"] then some (.spawn tag (max sleep 1) true false false)
      else if flags == ["must"] then some (.spawn tag (max sleep 1) false false true)
      else if flags == ["local"] then some (.spawn tag (max sleep 1) false true false)
      else if flags == ["join", "local"] then some (.spawn tag (max sleep 1) true true false)
      else if flags == ["must", "local"] then some (.spawn tag (max sleep 1) false true true)
      else none
    | _, _ => none
  | ["shutdown"] => some .shutdown
  | ["restart_in", d] => d.toNat?.map .restartIn
  | ["restart_at", t] => t.toNat?.map .restartAt
  | ["panic"] => some .panic
  | ["rpanic"] => some .rpanic
  | ["log", n] => n.toNat?.map .log
  | _ => none

def parseChan (nconn : Nat) (s : String) : Option (Option ChanCfg) :=
  if s == "-" then some none
  else match s.splitOn ":" with
    | [pos, lat, tx, pol] =>
      match pos.toNat?, lat.toNat?, tx.toNat? with
      | some pos, some lat, some tx =>
        if pos < nconn && (tx == 0 || tx == 4 || tx == 1000) && (pol == "q" || pol == "d") then
          some (some { pos := pos, lat := lat, tx := tx, queue := pol == "q" })
        else none
      | _, _, _ => none
    | _ => none

def parseScript (body : List String) : Script := Id.run do
  let mut sc : Script := {}
  for line in body do
    match words line with
    | "mod" :: m :: rest =>
      if (modIdx sc m).isNone then
        let stages := (kvNat rest "stages").getD 1
        let catch_ := kv rest "catch" == some "1"
        sc := { sc with mods := sc.mods ++ [(m, stages, catch_)] }
    | _ => pure ()
  for line in body do
    match words line with
    | ["link", a, b, via, chan] =>
      match modIdx sc a, modIdx sc b, stripPrefix via "via=", stripPrefix chan "chan=" with
      | some ai, some bi, some via, some chan =>
        if ai != bi && !sc.links.any (fun l => l.src == ai && l.dst == bi) then
          let via? : Option (Option Nat) :=
            if via == "-" then some none
            else match modIdx sc via with
              | some t => if t != ai && t != bi then some (some t) else none
              | none => none
          match via? with
          | some v =>
            let owners := match v with
              | some t => [ai, t, t, bi]
              | none => [ai, bi]
            match parseChan (owners.length - 1) chan with
            | some c => sc := { sc with links := sc.links ++ [{ src := ai, dst := bi, owners := owners, chan := c }] }
            | none => pure ()
          | none => pure ()
      | _, _, _, _ => pure ()
    | "act" :: m :: hook :: key :: rest =>
      match modIdx sc m, key.toNat? with
      | some mi, some key =>
        if hook == "msg" || hook == "start" || hook == "end" || hook == "task" then
          match parseAction sc rest with
          | some a => sc := { sc with acts := sc.acts ++ [(mi, hook, key, a)] }
          | none => pure ()
      | _, _ => pure ()
    | ["init", m, id, t] =>
      match modIdx sc m, id.toNat?, t.toNat? with
      | some mi, some id, some t => sc := { sc with inits := sc.inits ++ [(mi, id, t)] }
      | _, _, _ => pure ()
    | _ => pure ()
  return sc

def progOf (sc : Script) (mi : Nat) : Prog :=
  let mine := sc.acts.filter (·.1 == mi)
  let get (hook : String) (key : Nat) : List Action :=
    (mine.filter fun a => a.2.1 == hook && a.2.2.1 == key).map (·.2.2.2)
  { onMsg := get "msg", onStart := get "start", onEnd := get "end" 0, onTask := get "task" }

def configOf (sc : Script) : Config :=
  { mods := sc.mods.zipIdx.map fun p => { prog := progOf sc p.2, stages := p.1.2.1, catches := p.1.2.2 }
    links := sc.links
    inits := sc.inits }

def kindOf : String → Option OKind
  | "msg" => some .msg | "start" => some .start | "end" => some .end_ | "reset" => some .reset
  | "task" => some .task | "snd" => some .snd | "sch" => some .sch | "log" => some .log
  | "dwn" => some .dwn | "pan" => some .pan | "spw" => some .spw | "spm" => some .spm | "trs" => some .trs | "pes" => some .pes | "pee" => some .pee
  | _ => none

def kindName : OKind → String
  | .msg => "msg" | .start => "start" | .end_ => "end" | .reset => "reset" | .task => "task"
  | .snd => "snd" | .sch => "sch" | .log => "log" | .dwn => "dwn" | .pan => "pan"
  | .spw => "spw" | .spm => "spm" | .trs => "trs" | .pes => "pes" | .pee => "pee"

def optNat (s : String) : Option (Option Nat) :=
  if s == "-" then some none else s.toNat?.map some

def parseObs (sc : Script) (ws : List String) : Option Obs :=
  match ws with
  | [_, m, kind, a, b, t] =>
    match modIdx sc m, kindOf kind, optNat a, optNat b, t.toNat? with
    | some mi, some k, some a, some b, some t => some ⟨mi, k, a, b, t⟩
    | _, _, _, _, _ => none
  | _ => none

def showOpt : Option Nat → String
  | some x => toString x
  | none => "-"

def showObs (sc : Script) : Option Obs → String
  | some o =>
    let m := ((sc.mods[o.mod]?).map (·.1)).getD s!"#{o.mod}"
    s!"{m}/{kindName o.kind}/{showOpt o.a}/{showOpt o.b}/{o.time}"
  | none => "<nothing>"

def firstDiff (a b : List Obs) : Option Nat := Id.run do
  let n := max a.length b.length
  for i in [0:n] do
    if a[i]? != b[i]? then return some i
  return none

def showErr (sc : Script) (e : ErrKind × Nat) : String :=
  let m := ((sc.mods[e.2]?).map (·.1)).getD s!"#{e.2}"
  match e.1 with
  | .panic => s!"panic:{m}"
  | .join => s!"join:{m}"
  | .unfinished => s!"unfinished:{m}"
  | .tokio => s!"tokio:{m}"

/-- the `res` line the model predicts -/
def resOf (sc : Script) (errs : List (ErrKind × Nat)) : List String :=
  if errs.isEmpty then ["ok"] else "err" :: errs.map (showErr sc)

def insertSorted (x : String) : List String → List String
  | [] => [x]
  | y :: ys => if x ≤ y then x :: y :: ys else y :: insertSorted x ys

def sortStrings (l : List String) : List String := l.foldl (fun acc x => insertSorted x acc) []

/-! ## acceptance checker (knows the script's static data and the implementation trace only) -/

inductive Phase | up | down | ended
deriving DecidableEq

structure MSt where
  phase : Phase := .up
  pending : Option (Option Nat) := none     -- a `dwn` seen, `reset` not yet
  restartAt : Option Nat := none            -- while down: the requested restart time
  nextStage : Option Nat := none            -- while the restart stages run: the stage expected next
  stageTime : Nat := 0
  everDown : Bool := false
  dead : Bool := false                      -- a callback panicked
  tasks : List (Nat × Nat × Nat × Bool) := []   -- spawned in this incarnation, not resumed yet: task number,
                                                -- spawn time, sleep, handle given to `current().join`
  spawnCount : Nat := 0
  curMust : Bool := false                   -- the task that resumed last was one of those
  mustPanics : Nat := 0                     -- `join`ed tasks that panicked
  mustCancelled : Nat := 0                  -- `join`ed tasks cancelled by a shutdown
  downs : List (Nat × Option Nat) := []     -- closed / open down intervals (from, to)

structure Acc where
  ms : Array MSt
  ended : Bool := false
  fail : Option (Nat × String) := none

def isCode : OKind → Bool
  | .msg | .start | .task | .snd | .sch | .log | .dwn | .pan | .spw | .spm | .trs | .pes => true
  | _ => false

/-- one observation of the implementation trace; `hasPanic`: the script contains a panic action -/
def acceptStep (sc : Script) (hasPanic : Bool) (endIdx : Nat) (acc : Acc) (io : Nat × Obs) : Acc := Id.run do
  let (i, o) := io
  if acc.fail.isSome then return acc
  -- the sim-end phase opens with the `event_start` of the bracket around the first `at_sim_end`
  let acc : Acc := if i ≥ endIdx then { acc with ended := true } else acc
  let some st := acc.ms[o.mod]? | return { acc with fail := some (i, "no-such-module") }
  let stages := ((sc.mods[o.mod]?).map (·.2.1)).getD 0
  -- tasks (tokio::spawn and spawn_local alike): a task that resumes was spawned in the current
  -- incarnation (a shutdown cancels every task), and — without panics — resumes at its deadline
  let mut st := st
  if o.kind == .spw || o.kind == .spm then
    st := { st with tasks := st.tasks ++ [(st.spawnCount, o.time, o.b.getD 0, o.kind == .spm)],
                    spawnCount := st.spawnCount + 1 }
  if o.kind == .trs then
    match st.tasks.find? (·.1 == o.a.getD 0) with
    | some c =>
      if !(hasPanic || acc.ended) && c.2.1 + c.2.2.1 != o.time then
        return { acc with fail := some (i, "timer-not-at-deadline") }
      if o.time < c.2.1 + c.2.2.1 then return { acc with fail := some (i, "timer-before-deadline") }
      st := { st with tasks := st.tasks.erase c, curMust := c.2.2.2 }
    | none => return { acc with fail := some (i, "task-of-cancelled-incarnation") }
  -- the handles given to `current().join` outlive a shutdown: a cancelled task is reported at the end
  if o.kind == .pan && o.a == some 1 && st.curMust then st := { st with mustPanics := st.mustPanics + 1 }
  if o.kind == .reset then
    st := { st with tasks := [], mustCancelled := st.mustCancelled + (st.tasks.filter (·.2.2.2)).length }
  let acc : Acc := { acc with ms := acc.ms.set! o.mod st }
  let bad (c : String) : Acc := { acc with fail := some (i, c) }
  let put (st : MSt) : Acc := { acc with ms := acc.ms.set! o.mod st }
  -- the simulation end: `at_sim_end` runs for every module, overdue tasks resume (see DESIGN C13)
  if o.kind == .end_ then return { (put { st with phase := .ended }) with ended := true }
  if acc.ended || st.phase == .ended then return acc
  -- a module of which a callback panicked runs nothing any more, unless it is restarted
  if st.dead && st.phase == .up && isCode o.kind then return bad "ran-after-panic"
  if st.phase == .down then
    -- a module without start stages restarts invisibly
    if stages == 0 && o.kind != .reset then
      match st.restartAt with
      | some r =>
        if o.time ≥ r then
          st := { st with phase := .up, dead := false, restartAt := none,
                          downs := st.downs.map fun d => if d.2.isNone then (d.1, some r) else d }
        else return bad "inert-while-down"
      | none => return bad "inert-while-down"
    else if o.kind == .start && o.a == some 0 then
      match st.restartAt with
      | some r =>
        if o.time != r then return bad "restart-time"
        st := { st with phase := .up, dead := false, restartAt := none, nextStage := some 1, stageTime := r,
                        downs := st.downs.map fun d => if d.2.isNone then (d.1, some r) else d }
        return put st
      | none => return bad "restart-without-request"
    -- the restart event opens with the `event_start` of the bracket around stage 0
    else if o.kind == .pes && st.restartAt == some o.time then return acc
    else return bad "inert-while-down"
  -- phase up
  match o.kind with
  | .dwn => return put { st with pending := some o.a }
  | .reset =>
    match st.pending with
    | some r =>
      -- stages that were still expected are cut short by the shutdown
      return put { st with phase := .down, pending := none, restartAt := r, nextStage := none, everDown := true,
                           downs := st.downs ++ [(o.time, if stages == 0 then r else none)] }
    | none => return bad "reset-without-request"
  | .start =>
    match st.nextStage with
    | some k =>
      if o.a != some k || o.time != st.stageTime then return bad "stage-order"
      return put { st with nextStage := some (k + 1) }
    | none =>
      -- the initial start-up: time 0, before the module was ever down
      if st.everDown || o.time != 0 then return bad "spurious-start"
      if st.pending.isSome then return bad "shutdown-not-executed"
      return put st
  | .msg =>
    if st.pending.isSome then return bad "shutdown-not-executed"
    match st.nextStage with
    | some k =>
      if k < stages && !hasPanic then return bad "stages-incomplete"
      return put { st with nextStage := none }
    | none => return put st
  | .pan =>
    if o.a == some 0 then return put { st with dead := true } else return put st
  | _ => return put st

def accept (sc : Script) (hasPanic : Bool) (impl : List Obs) : Acc :=
  let endIdx := match impl.findIdx? (·.kind == .end_) with
    | some k =>
      (match impl[k]?, impl[k - 1]? with
       | some e, some p => if k > 0 && p.kind == .pes && p.mod == e.mod then k - 1 else k
       | _, _ => k)
    | none => impl.length
  impl.zipIdx.foldl (fun acc p => acceptStep sc hasPanic endIdx acc (p.2, p.1))
    { ms := (sc.mods.map fun _ => ({} : MSt)).toArray }

/-- was module `o` down strictly around instant `t`? -/
def downAround (acc : Acc) (o t : Nat) : Bool :=
  match acc.ms[o]? with
  | some st => st.downs.any fun d => d.1 < t && (match d.2 with | some e => t < e | none => true)
  | none => false

/-- a handled message whose last hops passed a gate of a module that was down at that instant -/
def throughDown (sc : Script) (acc : Acc) (impl : List Obs) : Option (Nat × String) := Id.run do
  let mut i := 0
  let mut ended := false
  for o in impl do
    if o.kind == .end_ then ended := true
    if !ended && o.kind == .msg then
      if downAround acc o.mod o.time then return some (i, "delivered-to-down-module")
      match o.b with
      | some serial =>
        let sender := serial / 4096
        if sender < 15 && sender != o.mod then
          match sc.links.find? (fun l => l.src == sender && l.dst == o.mod) with
          | some l =>
            -- the gates behind the channel (all gates but the last if there is none) are passed at `o.time`
            let from_ := match l.chan with
              | some c => c.pos + 1
              | none => 0
            let transit := (l.owners.drop from_).dropLast
            if transit.any (fun w => downAround acc w o.time) then return some (i, "delivered-through-down-module")
          | none => return some (i, "delivered-without-link")
      | none => pure ()
    i := i + 1
  return none

/-- the error list `run()` must return, as a sorted multiset, from the trace alone -/
def expectedErrors (sc : Script) (acc : Acc) (impl : List Obs) : List String := Id.run do
  let mut out : List String := []
  let n := sc.mods.length
  for mi in [0:n] do
    let name := ((sc.mods[mi]?).map (·.1)).getD "?"
    let catches := ((sc.mods[mi]?).map (·.2.2)).getD false
    let mine := impl.filter (·.mod == mi)
    let cb := (mine.filter fun o => o.kind == .pan && o.a == some 0).length
    if !catches then out := out ++ List.replicate cb s!"panic:{name}"
    -- an uncaught panic of `at_sim_end` itself returns before the join handles are looked at
    let afterEnd := mine.dropWhile (·.kind != .end_)
    let endPanic := !catches && afterEnd.any fun o => o.kind == .pan && o.a == some 0
    let joined := (mine.filter fun o => o.kind == .pan && o.a == some 1 && o.b == some 1).length
    if !endPanic then
      let st : MSt := (acc.ms[mi]?).getD {}
      -- `try_join`: panicked tasks; `join`: panicked, cancelled by a shutdown, still not finished
      out := out ++ List.replicate (joined + st.mustPanics) s!"join:{name}"
        ++ List.replicate st.mustCancelled s!"tokio:{name}"
        ++ List.replicate (st.tasks.filter (·.2.2.2)).length s!"unfinished:{name}"
  return sortStrings out

/-- C13 as stated, where the code (and hence the faithful model) is known to deviate; judged on
    the implementation trace only.  Returns (position, clause, tag).
    * F-C13b `task-panic-not-deactivated`: after a panic inside a `try_join`'ed / `join`ed task the module still
      handled a message or resumed a task during the event loop (the panic did not deactivate it);
    * F-C13c `ran-at-sim-end-after-panic`: a task of a module one of whose callbacks had panicked
      (and which was not reset / restarted since) was woken at simulation end.  (`at_sim_end` itself
      is called for such a module too; the property speaks of messages and wake-ups, so only the
      wake-up is judged);
    * F-C13b `task-panic-ignores-catch`: `run()` reports a `JoinError` for a module whose stereotype
      declares panics as caught. -/
def knownDeviation (sc : Script) (impl : List Obs) (res : List String) : Option (Nat × String × String) := Id.run do
  let mut jp : Array Bool := (sc.mods.map fun _ => false).toArray      -- a joined task panicked
  let mut must : Array (List Nat) := (sc.mods.map fun _ => []).toArray  -- numbers of live `join`ed tasks
  let mut count : Array Nat := (sc.mods.map fun _ => 0).toArray
  let mut curMust : Array Bool := (sc.mods.map fun _ => false).toArray  -- the task running is one of them
  let mut dead : Array Bool := (sc.mods.map fun _ => false).toArray    -- a callback panicked
  let mut ended := false
  let mut i := 0
  for o in impl do
    if o.kind == .end_ then ended := true
    if o.kind == .spw || o.kind == .spm then
      if o.kind == .spm then must := must.set! o.mod (count[o.mod]?.getD 0 :: must[o.mod]?.getD [])
      count := count.set! o.mod (count[o.mod]?.getD 0 + 1)
    if o.kind == .trs then
      let mine := must[o.mod]?.getD []
      curMust := curMust.set! o.mod (mine.contains (o.a.getD 0))
      must := must.set! o.mod (mine.erase (o.a.getD 0))
    if o.kind == .reset then must := must.set! o.mod []
    if !ended then
      if (o.kind == .msg || o.kind == .task) && jp[o.mod]?.getD false then
        return some (i, "task-panic-not-deactivated", "F-C13b")
      if o.kind == .pan && o.a == some 1 && (o.b == some 1 || curMust[o.mod]?.getD false) then
        jp := jp.set! o.mod true
      if o.kind == .pan && o.a == some 0 then dead := dead.set! o.mod true
      if o.kind == .reset then
        jp := jp.set! o.mod false
        dead := dead.set! o.mod false
    else
      if o.kind == .task && dead[o.mod]?.getD false then
        return some (i, "ran-at-sim-end-after-panic", "F-C13c")
    i := i + 1
  for m in sc.mods do
    if m.2.2 && res.contains s!"join:{m.1}" then
      return some (impl.length, "task-panic-ignores-catch", "F-C13b")
  return none

def fuel : Nat := 30000

def runCase (twice : Bool) (c : Case) : String := Id.run do
  let id := ((words c.header)[1]?).getD "?"
  let isOut (l : String) : Bool := l.startsWith "obs" || l.startsWith "res" || l.startsWith "glob" || l.startsWith "end"
  let body := c.body.filter fun l => !isOut l
  let sc := parseScript body
  let hasPanic := sc.acts.any fun a => a.2.2.2 == .panic || a.2.2.2 == .rpanic
  let mut impl : List Obs := []
  let mut impl2 : List Obs := []
  let mut res : List String := []
  let mut res2 : List String := []
  let mut glob := ""
  let mut glob2 := ""
  let mut i := 0
  for line in c.body do
    let ws := words line
    match ws with
    | "obs" :: _ =>
      i := i + 1
      match parseObs sc ws with
      | some o => impl := o :: impl
      | none => return s!"fail {id} op={i} kind=badline detail=[{line}]"
    | "obs2" :: _ =>
      match parseObs sc ws with
      | some o => impl2 := o :: impl2
      | none => return s!"fail {id} op={i} kind=badline detail=[{line}]"
    | "res" :: r => res := r
    | "res2" :: r => res2 := r
    | ["glob", g] => glob := g
    | ["glob2", g] => glob2 := g
    | _ => pure ()
  impl := impl.reverse
  impl2 := impl2.reverse
  if res.isEmpty then return s!"fail {id} op=0 kind=badline detail=no-result"
  -- T: the model
  let s := run fuel (configOf sc)
  let crashed := res.head? == some "crash"
  match s.fault with
  | some "add-in-the-past" =>
    -- a restart time in the past makes `Runtime::add_event` panic (the caller's obligation, see
    -- `shutdow_and_restart_at`): both sides must agree that the simulator stops
    if crashed then return s!"ok {id} nt=0 pastrestart=1"
    else return s!"fail {id} op={impl.length} kind=diverge what=past-restart model=[crash] impl=[{" ".intercalate res}]"
  | some f => return s!"fail {id} op=0 kind=badcase detail=model-{f}"
  | none => pure ()
  if crashed then
    return s!"fail {id} op={impl.length} kind=reject clause=simulator-crashed impl=[{" ".intercalate res}] last=[{showObs sc impl.getLast?}]"
  -- A: the acceptance checker
  let acc := accept sc hasPanic impl
  match acc.fail with
  | some (k, clause) =>
    return s!"fail {id} op={k} kind=reject clause={clause} at=[{showObs sc impl[k]?}] prev=[{showObs sc (if k = 0 then none else impl[k-1]?)}]"
  | none => pure ()
  -- the harness-only lines have been judged; the model does not produce them
  let modelLine (o : Obs) : Bool :=
    o.kind != .spw && o.kind != .spm && o.kind != .trs && o.kind != .pes && o.kind != .pee
  let implAll := impl
  impl := impl.filter modelLine
  impl2 := impl2.filter modelLine
  match throughDown sc acc impl with
  | some (k, clause) => return s!"fail {id} op={k} kind=reject clause={clause} at=[{showObs sc impl[k]?}]"
  | none => pure ()
  let exp := expectedErrors sc acc impl
  let got := sortStrings (res.drop 1)
  if exp != got then
    return s!"fail {id} op={impl.length} kind=reject clause=errors-eq-panicked-paths spec=[{" ".intercalate exp}] impl=[{" ".intercalate got}]"
  if glob != "ctx=free" then
    return s!"fail {id} op={impl.length} kind=reject clause=globals-released impl=[{glob}]"
  -- T: whole trace, error list
  match firstDiff s.trace impl with
  | some k =>
    return s!"fail {id} op={k} kind=diverge model=[{showObs sc s.trace[k]?}] impl=[{showObs sc impl[k]?}] prev=[{showObs sc (if k = 0 then none else impl[k-1]?)}]"
  | none => pure ()
  if resOf sc s.errors != res then
    return s!"fail {id} op={impl.length} kind=diverge what=errors model=[{" ".intercalate (resOf sc s.errors)}] impl=[{" ".intercalate res}]"
  if s.cur.isSome then
    return s!"fail {id} op={impl.length} kind=diverge what=context model=[held] impl=[free]"
  if twice then
    -- the second simulation in the same process
    if glob2 != "ctx=free" then
      return s!"fail {id} op={impl.length} kind=reject clause=globals-released run=2 impl=[{glob2}]"
    match firstDiff s.trace impl2 with
    | some k =>
      return s!"fail {id} op={k} kind=diverge run=2 model=[{showObs sc s.trace[k]?}] impl=[{showObs sc impl2[k]?}]"
    | none => pure ()
    if resOf sc s.errors != res2 then
      return s!"fail {id} op={impl.length} kind=diverge run=2 what=errors model=[{" ".intercalate (resOf sc s.errors)}] impl=[{" ".intercalate res2}]"
  -- C13 as stated: the recorded deviations (only now that model = implementation on everything)
  -- (a kind of its own: a violation of another clause must not shrink into one of these)
  match knownDeviation sc implAll res with
  | some (k, clause, tag) =>
    return s!"fail {id} op={k} kind=deviation clause={clause} tag={tag} at=[{showObs sc implAll[k]?}] res=[{" ".intercalate res}]"
  | none => pure ()
  -- evidence
  let mainLoop := impl.takeWhile (·.kind != .end_)
  let count (k : OKind) : Nat := (mainLoop.filter (·.kind == k)).length
  let resets := count .reset
  let restarts := (acc.ms.toList.map fun st => (st.downs.filter (·.2.isSome)).length).foldl (· + ·) 0
  let cycles := (acc.ms.toList.filter fun st => st.downs.length ≥ 2).length
  let sent := mainLoop.filter fun o => o.kind == .snd || o.kind == .sch
  let handled := mainLoop.filter (·.kind == .msg)
  let dropped := (sent.filter fun o => !handled.any (fun h => h.b == o.b)).length
  let pans := impl.filter (·.kind == .pan)
  let cbPans := (pans.filter (·.a == some 0)).length
  let taskPans := (pans.filter (·.a == some 1)).length
  let caught := (pans.filter fun o => o.a == some 0 && ((sc.mods[o.mod]?).map (·.2.2)).getD false).length
  let firstPan := mainLoop.findIdx? (fun o => o.kind == .pan && o.a == some 0)
  let afterPan := match firstPan with
    | some k => match mainLoop[k]? with
      | some p => ((mainLoop.drop k).filter fun o => o.kind == .msg && o.mod != p.mod).length
      | none => 0
    | none => 0
  let ties := ((handled.zip (handled.drop 1)).filter fun p => p.1.time == p.2.time).length
  let transit := (sc.links.filter (·.owners.length > 2)).length
  let chans := (sc.links.filter (·.chan.isSome)).length
  let endTasks := ((impl.dropWhile (·.kind != .end_)).filter (·.kind == .task)).length
  let nt := if twice then cbPans > 0 && afterPan > 0 else resets > 0 && restarts > 0 && dropped > 0
  return s!"ok {id} nt={if nt then 1 else 0} obs={impl.length} mods={sc.mods.length} resets={resets} restarts={restarts} cycles={cycles} sent={sent.length} handled={handled.length} dropped={dropped} tasks={count .task} ties={ties} transitlinks={transit} chanlinks={chans} cbpanics={cbPans} taskpanics={taskPans} caught={caught} errs={s.errors.length} afterpanic={afterPan} endtasks={endTasks} events={s.evs.size}"

def main (stdin : IO.FS.Stream) : IO Unit := do
  let cases ← readCases stdin
  for c in cases do
    IO.println (runCase false c)

end Driver.C09

/-
Driver for C17: replays an implementation transcript (harness/src/c17.rs) through the model
`Cfg` (Model/Cfg.lean: compartmentalize, update_from, Props, typed slots, include/node) and the
abstract specification `CfgSpec` (Spec/Cfg.lean: segment matcher, typed-slot rule) — the
definitions the theorems in Props/C17.lean are about.
-/
import Desverif.Model.Cfg
import Desverif.Spec.Cfg
import Driver.Common
namespace Driver.C17
open Driver Cfg

def parseKey (s : String) : Key := if s = "~" || s = "" then [] else s.splitOn "."

def showKey (k : Key) : String := ".".intercalate k

def renStr (s : String) : String := if s.isEmpty then "~" else s

partial def renVal : Val → String
  | .scalar s => renStr s
  | .map es => "{" ++ ",".intercalate (es.map fun e => renStr (showKey e.1) ++ ":" ++ renVal e.2) ++ "}"

def renSlot : Slot → String
  | .none => "!"
  | .yaml v => renVal v
  | .some (.str s) => renStr s
  | .some (.u64 n) => s!"#{n}"

def renProps (ps : Props) : String :=
  if ps.isEmpty then "-" else
  let arr := (ps.map fun e => (showKey e.1, renSlot e.2)).toArray.qsort (fun a b => a.1 < b.1)
  ";".intercalate (arr.toList.map fun e => renStr e.1 ++ "=" ++ e.2)

/-- `k=v` tokens → flat configuration; `none` if a token is malformed -/
def parseEntries (toks : List String) : Option Flat :=
  toks.mapM fun t =>
    match t.splitOn "=" with
    | [k, v] => some (parseKey k, v)
    | _ => none

/-- observed `k=v;k=v` list → (name, rendered value) -/
def parseObs (s : String) : Option (List (Key × String)) :=
  if s = "-" then some [] else
  (s.splitOn ";").mapM fun t =>
    match t.splitOn "=" with
    | [k, v] => some (parseKey k, v)
    | _ => none

def parseTy (s : String) : Option Ty :=
  if s = "str" then some .str else if s = "u64" then some .u64 else none

def parseTAns (s : String) : Option TAns :=
  if s = "invalid" then some .invalid
  else if s = "other" then some .other
  else if s = "none" then some .none
  else if s = "ok" then some .ok
  else if s = "panic" then some .panic
  else if s.startsWith "s:" then some (.val (.str (let r := (s.drop 2).toString; if r = "~" then "" else r)))
  else if s.startsWith "n:" then (s.drop 2).toString.toNat?.map fun n => .val (.u64 n)
  else none

def showTAns : TAns → String
  | .invalid => "invalid" | .other => "other" | .none => "none" | .ok => "ok" | .panic => "panic"
  | .val (.str s) => "s:" ++ renStr s | .val (.u64 n) => s!"n:{n}"

/-- statistics for the non-triviality rule -/
structure Stats where
  obs : Nat := 0      -- property-set observations checked against the specification
  keys : Nat := 0     -- specified property names in them
  wild : Nat := 0     -- matching entries that use the wildcard
  near : Nat := 0     -- non-matching entries that differ from the module path only in a segment
                      -- sharing a textual prefix with the module's segment
  typed : Nat := 0
  mism : Nat := 0     -- typed accesses answered `invalid`
  handles : Nat := 0  -- live handles opened
  stale : Nat := 0    -- operations through a live handle answered with a panic (stale handle)
  f11b : Nat := 0     -- observations on configurations of the open class F11b

def nearMiss : List Seg → Key → Bool
  | [], _ => false
  | _ :: _, [] => false
  | s :: rest, h :: k =>
    if h = s || h = ANY then nearMiss rest k
    else (s.startsWith h || h.startsWith s)

def countStats (st : Stats) (cs : List Flat) (p : List Seg) : Stats :=
  let es := cs.flatMap id
  { st with
    obs := st.obs + 1
    keys := st.keys + (cs.flatMap fun c => CfgSpec.specKeys c p).length
    wild := st.wild + (es.filter fun e => (CfgSpec.matchName p e.1).isSome && hasAny e.1).length
    near := st.near + (es.filter fun e => nearMiss p e.1).length }

def tagOf (cs : List Flat) : String :=
  if cs.any fun c => decide (CfgSpec.Clash c) then "F11b" else "none"

/-- spec check of one observed property set; `skip` = names touched by typed accesses -/
def specCheck (cs : List Flat) (p : List Seg) (obs : List (Key × String)) (skip : List Key) : Bool :=
  let cs' := cs.map fun c => c.filter fun e =>
    match CfgSpec.matchName p e.1 with
    | some n => !skip.contains n
    | none => true
  CfgSpec.accepts cs' p (obs.filter fun o => !skip.contains o.1)

structure St where
  sim : Sim := {}
  cfgs : List Flat := []                         -- successfully included, in order
  touched : List (List Seg × Key) := []          -- (module, name) accessed through typed handles
  pstate : List ((List Seg × Key) × CfgSpec.PState) := []   -- abstract typed-slot state
  live : List (String × (List Seg × Key × Handle)) := []    -- live handles by script name
  stats : Stats := {}

/-- abstract state of a property; at the first access it is `configured` iff the included
    configurations assign the name to the module (by the specification; by the model's store for
    configurations outside the specified domain / in class F11b) -/
def St.pstateOf (s : St) (path : List Seg) (k : Key) (ps : Props) : CfgSpec.PState :=
  match s.pstate.find? (·.1 = (path, k)) with
  | some e => e.2
  | none =>
    let dom := s.cfgs.all fun c => decide (CfgSpec.WF c) && !decide (CfgSpec.Clash c)
    let assigned :=
      if dom then (s.cfgs.flatMap fun c => CfgSpec.specKeys c path).contains k
      else match ps.find k with
        | some (.yaml _) => true
        | _ => false
    if assigned then .configured else .untyped

/-- run the abstract rule over the accesses one implementation answer stands for -/
def acceptAll (st : CfgSpec.PState) : List (CfgSpec.Acc × TAns) → Bool × CfgSpec.PState
  | [] => (true, st)
  | (a, ans) :: r =>
    let (ok, st') := CfgSpec.typedAccept st a ans
    if ok then acceptAll st' r else (false, st)

def St.setPstate (s : St) (path : List Seg) (k : Key) (st : CfgSpec.PState) : St :=
  { s with pstate := ((path, k), st) :: s.pstate.filter (·.1 != (path, k)),
           touched := (path, k) :: s.touched }

def runCase (c : Case) : String := Id.run do
  let h := words c.header
  let id := (h[1]?).getD "?"
  let mut s : St := {}
  let mut i := 0
  for line in c.body do
    if line.startsWith "end" then
      if line != "end" then return s!"fail {id} op={i} kind=reject clause=drop-panic impl={line}"
      continue
    i := i + 1
    let (lhs, rhs) := splitArrow line
    let l := words lhs
    let ans := rhs.trimAscii.toString
    let bad := s!"fail {id} op={i} kind=badline detail=[{line}]"
    match l with
    | "cfg" :: toks =>
      match parseEntries toks with
      | none => return bad
      | some flat =>
        if ans = "err" then
          -- serde_yml rejected the text (duplicate keys): `include_cfg` ignores it, so does the model
          if (flat.map (·.1)).Nodup then
            return s!"fail {id} op={i} kind=diverge line=[{line}] detail=yaml-text-rejected"
          continue
        if ans != "ok" then
          return s!"fail {id} op={i} kind=reject clause=include-panics tag={tagOf [flat]} line=[{line}] impl={ans}"
        match s.sim.includeCfg flat with
        | .error e => return s!"fail {id} op={i} kind=diverge line=[{line}] model=error:{repr e} impl={ans}"
        | .ok sim' => s := { s with sim := sim', cfgs := s.cfgs ++ [flat] }
    | ["node", p] =>
      let path := parseKey p
      let (sim', a) := s.sim.node path
      let ma := if a = .ok then "ok" else "panic"
      if ans != ma then
        -- creating a node is specified to succeed unless it is a duplicate / lacks its parent
        let kind := if (a = .ok) then "reject clause=node-panics" else "diverge"
        return s!"fail {id} op={i} kind={kind} tag={tagOf s.cfgs} line=[{line}] model={repr a} impl={ans}"
      s := { s with sim := sim' }
    | ["props", p] =>
      let path := parseKey p
      match s.sim.props path with
      | none =>
        if ans != "nomod" then return s!"fail {id} op={i} kind=diverge line=[{line}] model=nomod impl={ans}"
      | some ps =>
        let m := renProps ps
        match parseObs ans with
        | none => return s!"fail {id} op={i} kind=reject clause=props-panics tag={tagOf s.cfgs} line=[{line}] model={m} impl={ans}"
        | some obs =>
          let dom := s.cfgs.all fun c => decide (CfgSpec.WF c)
          if dom then
            let skip := (s.touched.filter (·.1 = path)).map (·.2)
            s := { s with stats := countStats s.stats s.cfgs path }
            if tagOf s.cfgs = "F11b" then s := { s with stats := { s.stats with f11b := s.stats.f11b + 1 } }
            if !specCheck s.cfgs path obs skip then
              let want := showKey <$> (s.cfgs.flatMap fun c => CfgSpec.specKeys c path)
              return s!"fail {id} op={i} kind=reject clause=props tag={tagOf s.cfgs} line=[{line}] spec-names={want} model={m} impl={ans}"
          if ans != m then
            return s!"fail {id} op={i} kind=diverge tag={tagOf s.cfgs} line=[{line}] model={m} impl={ans}"
    | "cap" :: p :: toks =>
      let path := parseKey p
      match parseEntries toks with
      | none => return bad
      | some flat =>
        if ans = "err" then
          if (flat.map (·.1)).Nodup then
            return s!"fail {id} op={i} kind=diverge line=[{line}] detail=yaml-text-rejected"
          continue
        let m := match captureInto flat path with
          | .ok ps => renProps ps
          | .error e => s!"error:{repr e}"
        match parseObs ans with
        | none => return s!"fail {id} op={i} kind=reject clause=capture-panics tag={tagOf [flat]} line=[{line}] model={m} impl={ans}"
        | some obs =>
          if decide (CfgSpec.WF flat) then
            s := { s with stats := countStats s.stats [flat] path }
            if tagOf [flat] = "F11b" then s := { s with stats := { s.stats with f11b := s.stats.f11b + 1 } }
            if !CfgSpec.accepts [flat] path obs then
              let want := showKey <$> CfgSpec.specKeys flat path
              return s!"fail {id} op={i} kind=reject clause=capture tag={tagOf [flat]} line=[{line}] spec-names={want} model={m} impl={ans}"
          if ans != m then
            return s!"fail {id} op={i} kind=diverge tag={tagOf [flat]} line=[{line}] model={m} impl={ans}"
    | ["open", p, key, ty, name] =>
      let path := parseKey p
      let k := parseKey key
      match parseTy ty with
      | none => return bad
      | some t =>
        match s.sim.props path with
        | none =>
          if ans != "nomod" then return s!"fail {id} op={i} kind=diverge line=[{line}] model=nomod impl={ans}"
        | some ps =>
          let (ps', r) := ps.openH k t
          let ma : TAns := match r with
            | .ok _ => .ok
            | .error a => a
          match parseTAns ans with
          | none => return bad
          | some ia =>
            let pst := s.pstateOf path k ps
            let (acc, pst') := CfgSpec.typedAccept pst (.openT t) ia
            if !acc then
              return s!"fail {id} op={i} kind=reject clause=typed-slot line=[{line}] state={repr pst} model={showTAns ma} impl={ans}"
            if ia != ma then
              return s!"fail {id} op={i} kind=diverge line=[{line}] model={showTAns ma} impl={ans}"
            s := { (s.setPstate path k pst') with sim := s.sim.setProps path ps' }
            match r with
            | .ok h =>
              s := { s with live := (name, (path, k, h)) :: s.live.filter (·.1 != name),
                            stats := { s.stats with handles := s.stats.handles + 1 } }
            | .error _ =>
              s := { s with stats := { s.stats with mism := s.stats.mism + (if ia = .invalid then 1 else 0) } }
    | ["clear", p, key] =>
      let path := parseKey p
      let k := parseKey key
      match s.sim.props path with
      | none =>
        if ans != "nomod" then return s!"fail {id} op={i} kind=diverge line=[{line}] model=nomod impl={ans}"
      | some ps =>
        match parseTAns ans with
        | none => return bad
        | some ia =>
          let pst := s.pstateOf path k ps
          let (acc, pst') := CfgSpec.typedAccept pst .clear ia
          if !acc then
            return s!"fail {id} op={i} kind=reject clause=typed-slot line=[{line}] state={repr pst} model=ok impl={ans}"
          s := { (s.setPstate path k pst') with sim := s.sim.setProps path (ps.rawClear k) }
    | hop :: name :: rest =>
      if ["hget", "hdef", "hset", "hclear", "hdrop"].contains hop then
        match s.live.find? (·.1 = name) with
        | none => return s!"fail {id} op={i} kind=badline detail=[{line}] (handle not alive)"
        | some (_, path, k, h) =>
          let op? : Option HOp :=
            if hop = "hget" then some .get
            else if hop = "hdef" then some .orDefault
            else if hop = "hclear" then some .clear
            else if hop = "hdrop" then some .drop
            else match h.ty, rest with
              | .str, [v] => some (.set (.str v))
              | .u64, [v] => v.toNat?.map fun n => .set (.u64 n)
              | _, _ => none
          match op?, s.sim.props path, parseTAns ans with
          | some op, some ps, some ia =>
            let (ps', ma, h') := ps.handleOp k h op
            let acc : CfgSpec.Acc := match op with
              | .get => .get h.ty
              | .orDefault => .orDefault h.ty
              | .set _ => .set h.ty
              | .clear => .clear
              | .drop => .drop
            let pst := s.pstateOf path k ps
            let (ok, pst') := CfgSpec.typedAccept pst acc ia
            if !ok then
              return s!"fail {id} op={i} kind=reject clause=typed-slot line=[{line}] handle={repr h} state={repr pst} model={showTAns ma} impl={ans}"
            if ia != ma then
              return s!"fail {id} op={i} kind=diverge line=[{line}] handle={repr h} model={showTAns ma} impl={ans}"
            s := { (s.setPstate path k pst') with
              sim := s.sim.setProps path ps'
              live := match h' with
                | some h' => (name, (path, k, h')) :: s.live.filter (·.1 != name)
                | none => s.live.filter (·.1 != name)
              stats := { s.stats with typed := s.stats.typed + 1,
                                      stale := s.stats.stale + (if ia = .panic then 1 else 0) } }
          | _, _, _ => return bad
      else
      match l with
      | op :: p :: key :: ty :: rest =>
        let path := parseKey p
        let k := parseKey key
        match parseTy ty with
        | none => return bad
        | some t =>
          let top : Option TOp :=
            if op = "read" then some .read
            else if op = "readd" then some .readd
            else if op = "write" then
              match t, rest with
              | .str, [v] => some (.write (.str v))
              | .u64, [v] => v.toNat?.map fun n => .write (.u64 n)
              | _, _ => none
            else none
          match top with
          | none => return bad
          | some top =>
            match s.sim.props path with
            | none =>
              if ans != "nomod" then return s!"fail {id} op={i} kind=diverge line=[{line}] model=nomod impl={ans}"
            | some ps =>
              let (ps', ma) := ps.typedOp k t top
              match parseTAns ans with
              | none => return s!"fail {id} op={i} kind=reject clause=typed-panics line=[{line}] model={showTAns ma} impl={ans}"
              | some ia =>
                -- abstract typed-slot rule: the call is `prop::<T>` followed by one handle operation
                let pst := s.pstateOf path k ps
                let accs : List (CfgSpec.Acc × TAns) :=
                  if ia = .invalid || ia = .other then [(.openT t, ia)]
                  else [(.openT t, .ok),
                        (match top with
                         | .read => .get t
                         | .readd => .orDefault t
                         | .write _ => .set t, ia), (.drop, .ok)]
                let (acc, pst') := acceptAll pst accs
                if !acc then
                  return s!"fail {id} op={i} kind=reject clause=typed-slot line=[{line}] state={repr pst} model={showTAns ma} impl={ans}"
                if ia != ma then
                  return s!"fail {id} op={i} kind=diverge line=[{line}] model={showTAns ma} impl={ans}"
                s := { (s.setPstate path k pst') with
                  sim := s.sim.setProps path ps'
                  stats := { s.stats with typed := s.stats.typed + 1,
                                          mism := s.stats.mism + (if ia = .invalid then 1 else 0) } }
      | _ => return bad
    | _ => return bad
  let st := s.stats
  let nt := st.obs > 0 && st.wild > 0 && st.near > 0 && st.keys > 0
  return s!"ok {id} nt={if nt then 1 else 0} ops={i} obs={st.obs} keys={st.keys} wild={st.wild} near={st.near} typed={st.typed} mismatch={st.mism} handles={st.handles} stale={st.stale} f11b={st.f11b}"

def main (stdin : IO.FS.Stream) : IO Unit := do
  let cases ← readCases stdin
  for c in cases do
    IO.println (runCase c)

end Driver.C17

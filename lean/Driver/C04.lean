/- Driver for C04 (stub — not built yet) -/
import Driver.Common
namespace Driver.C04
open Driver

def main (stdin : IO.FS.Stream) : IO Unit := do
  let cases ← readCases stdin
  for c in cases do
    IO.println s!"fail {(words c.header)[1]?.getD "?"} op=0 kind=unimplemented"

end Driver.C04

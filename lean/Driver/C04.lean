/-
Driver for C04.  A transcript case holds the script, the canonical traces of the real executions of
the SAME (model, seed) — `a1`, `a2` (back to back in one process), `b` (after an unrelated simulation),
`c` (in a child process) — and the header parameter `tq` (measured `TimerQueue::next` variant).

1. the real traces are compared with each other, line by line, result included: a difference is a
   concrete failing input (`kind=reject clause=nondeterminism pair=… op=<first differing line>`;
   `clause=sender-resolution` if the first difference is one delivery whose sender id resolved to
   different paths);
   the sets of unfinished tasks dropped at tear-down must agree as well; if only their ORDER differs
   the verdict is `kind=reject clause=teardown-order`, if only the clock seen while the network was
   built differs (`bt` lines, header `clock=1`) it is `kind=reject clause=build-time-clock` (both are
   reported only when everything else, the model replay included, agrees);
2. the random stream is read off trace `a1` (tokio seed placeholders at the `start` callbacks, `random()`
   values, jitter = arrival - send - latency, `select!` start index = first polled branch) and the script
   is replayed through `Repro.run` (the definitions the theorems of Props/C04.lean are about) under a
   non-canonical ambient; trace, final time, event count, left-over events, unfinished tasks must agree
   and the stream must be used up exactly (`kind=diverge`).
-/
import Desverif.Model.Repro
import Driver.Common
import Std.Data.HashMap
import Std.Data.HashSet
namespace Driver.C04
open Repro Driver

def parseStep (t : String) : Option Step :=
  match t.splitOn ":" with
  | ["draw"] => some .draw
  | ["draw32"] => some .draw32
  | ["send", dst, k] => k.toNat?.map (fun k => Step.send dst k 0)
  | ["send", dst, k, d] => do let k ← k.toNat?; let d ← d.toNat?; pure (.send dst k d)
  | ["schedr", k] => k.toNat?.map Step.schedr
  | ["spin", n, e] => do
    let n ← n.toNat?
    let e ← e.toNat?
    if e == 0 then none else pure (.spin n n e)
  | ["sig", n] => some (.sig n)
  | ["wait", n] => some (.wait n)
  | ["sched", d, k] => do let d ← d.toNat?; let k ← k.toNat?; pure (.sched d k)
  | ["spawn", t] => some (.spawn t)
  | ["spawnl", _] => none   -- `spawn_local`: outside the model (`nomodel=1` cases only)
  | ["sleep", d] => d.toNat?.map Step.sleep
  | ["shut"] => some .shut
  | ["restart", d] => d.toNat?.map Step.restart
  | ["sel", ds] =>
    let v := (ds.splitOn ",").map String.toNat?
    if v.all Option.isSome && (v.length == 2 || v.length == 3) then some (.sel (v.map (·.getD 0))) else none
  | _ => none

structure Script where
  created : List (String × Nat) := []
  links : List Link := []
  rules : List (String × On × List Step) := []
  tasks : List (String × List Step) := []
  ndl : Bool := false

def parseScript (body : List String) : Script := Id.run do
  let mut sc : Script := {}
  for line in body do
    match words line with
    | "mod" :: path :: rest =>
      let comps := path.splitOn "."
      if comps.any (· == "") then continue
      if sc.created.any (·.1 == path) then continue
      match parentPath path with
      | some p => if !sc.created.any (·.1 == p) then continue
      | none => pure ()
      sc := { sc with created := sc.created ++ [(path, (kvNat rest "ttl").getD 0)] }
    | _ => pure ()
  -- `ndl base=<k>`: the network is built from an NDL description: flat (root `^` + submodules), channel-less links
  if body.any (fun l => match words l with | ["ndl", kv] => kv.startsWith "base=" && ((kv.drop 5).toNat?).isSome | _ => false) then
    sc := { sc with ndl := true, created := sc.created.filter (fun m => !(m.1.splitOn ".").length ≥ 2) }
  let has := fun (sc : Script) (p : String) => sc.created.any (·.1 == p)
  for line in body do
    match words line with
    | "link" :: src :: dst :: rest =>
      if !has sc src || !has sc dst || src == dst then continue
      if sc.links.any (fun l => l.src == src && l.dst == dst) then continue
      if rest.contains "direct" || sc.ndl then
        sc := { sc with links := sc.links ++ [⟨src, dst, none⟩] }
      else
        match kvNat rest "lat", kvNat rest "jit" with
        | some l, some j =>
          -- the transmission time of a link with a bitrate is measured by the harness (`tx` line)
          let tx := if ((kvNat rest "rate").getD 0) == 0 then 0 else
            (body.findSome? fun l2 => match words l2 with
              | ["tx", s2, d2, v] => if s2 == src && d2 == dst then v.toNat? else none
              | _ => none).getD 0
          sc := { sc with links := sc.links ++ [⟨src, dst, some (l, j, tx)⟩] }
        | _, _ => pure ()
    | "rule" :: path :: on :: steps =>
      let on? : Option On :=
        if on == "start" then some .start
        else if on == "end" then some .end_
        else match on.splitOn ":" with
          | ["msg", k] => k.toNat?.map On.msg
          | _ => none
      match on? with
      | some o => sc := { sc with rules := sc.rules ++ [(path, o, steps.filterMap parseStep)] }
      | none => pure ()
    | "task" :: tag :: steps =>
      if !sc.tasks.any (·.1 == tag) then
        sc := { sc with tasks := sc.tasks ++ [(tag, steps.filterMap parseStep)] }
    | _ => pure ()
  return sc

structure RunObs where
  obs : Array Obs := #[]
  raw : Array String := #[]        -- the same lines as text (with the result line last)
  drops : Array String := #[]
  built : String := ""
  res : String := ""

def parseObs (toks : List String) : Option Obs :=
  match toks with
  | t :: path :: what :: who :: peer :: args =>
    match t.toNat? with
    | some t => some ⟨t, path, what, who, peer, args.map (·.toNat?.getD 0)⟩
    | none => none
  | _ => none

/-- an `xmit` line as the model logs it: without the message length that the probe appends -/
def modelView (line : String) : String :=
  match words line with
  | t :: p :: "xmit" :: src :: dst :: serial :: _ => " ".intercalate [t, p, "xmit", src, dst, serial]
  | _ => line

/-- `body map|set <n>`: the exact length of a message with that body: 64 (header) + 8 (serial) + the entries
    (map: 4-byte key + value of length 1 + 7i mod 13; set: element of length 3 + 5i mod 11) -/
def bodyLength (body : List String) : Nat :=
  let plain := 72
  match body.findSome? (fun l => match words l with
      | ["body", k, n] => if k == "map" || k == "set" then n.toNat?.map (fun n => (k == "map", n)) else none
      | _ => none) with
  | some (isMap, n) =>
    if n > 999 then plain
    else plain + ((List.range n).map (fun i => if isMap then 4 + 1 + (i * 7) % 13 else 3 + (i * 5) % 11)).sum
  | none => plain

def fmtObs (o : Obs) : String :=
  s!"{o.time} {o.path} {o.what} {o.who} {o.peer}" ++ String.join (o.args.map (fun a => s!" {a}"))

def us (s : String) : String := s.replace " " "_"

/-- index of the first difference of two arrays (or the shorter length) -/
def firstDiff (a b : Array String) : Option Nat := Id.run do
  let n := min a.size b.size
  for i in [0:n] do
    if a[i]! != b[i]! then return some i
  if a.size != b.size then return some n
  return none

def sortStrings (a : Array String) : Array String := a.qsort (· < ·)

/-- the random stream that run `r` consumed, in consumption order -/
def streamOf (sc : Script) (r : RunObs) : Except String (List Nat) := do
  let mut recv : Std.HashMap Nat Nat := {}
  for o in r.obs do
    if o.what == "msg" then
      match o.args with
      | [_, _, serial] => recv := recv.insert serial o.time
      | _ => pure ()
  let mut out : Array Nat := #[]
  let mut ending := false
  let mut started : Std.HashSet String := {}
  for o in r.obs do
    if o.what == "end" then ending := true
    -- the `RngSeed` of a tokio runtime: drawn at a module's first event and by every `ModuleRef::reset`
    -- (the value itself is not observable; the `select!` start indices it determines are)
    if o.what == "start" && !started.contains o.path then
      started := started.insert o.path
      out := out.push 0
    else if o.what == "reset" then out := out.push 0
    else if o.what == "draw" || o.what == "draw32" then out := out.push (o.args.headD 0)
    else if o.what == "sp" then out := out.push (o.args.headD 0)
    else if o.what == "xmit" then
      -- a transmission starts (`Channel::send_message` on an idle channel; the probe logs src, dst, serial):
      -- this is where the jitter is drawn, if the metric has one
      match sc.links.find? (fun l => l.src == o.who && l.dst == o.peer) with
      | some ⟨_, _, some (lat, jit, tx)⟩ =>
        if jit != 0 then
          match o.args with
          | [serial] =>
            match recv[serial]? with
            | some t =>
              if t < o.time + lat + tx then throw s!"arrival-before-latency serial={serial}"
              let j := t - o.time - lat - tx
              if j ≥ jit then throw s!"jitter-out-of-range serial={serial} jitter={j} bound={jit}"
              out := out.push j
            | none =>
              -- `at_sim_end` does not flush the emission buffer: the draw is made, its value is never used
              if ending then out := out.push 0 else throw s!"undelivered serial={serial}"
          | _ => throw "bad-xmit-line"
      | _ => pure ()
  return out.toList

def hasDecisiveSel (steps : List Step) : Bool :=
  steps.any fun
    | .sel ds =>
      match ds.min? with
      | some m => (ds.filter (· == m)).length ≥ 2
      | none => false
    | _ => false

def main (stdin : IO.FS.Stream) : IO Unit := do
  let cases ← readCases stdin
  for c in cases do
    let htoks := words c.header
    let id := htoks[1]?.getD "?"
    let wantChild := (kv htoks "child") == some "1"
    let skipEmpty := (kv htoks "tq") == some "skip"
    let seed := (kvNat htoks "seed").getD 1
    let sc := parseScript c.body
    -- the runs
    let mut runs : Std.HashMap String RunObs := {}
    for line in c.body do
      match words line with
      | "o" :: r :: rest =>
        let ro := runs.getD r {}
        match parseObs rest with
        | some o =>
          let o := if o.what == "xmit" then { o with args := o.args.take 1 } else o
          runs := runs.insert r { ro with obs := ro.obs.push o, raw := ro.raw.push (" ".intercalate rest) }
        | none => runs := runs.insert r { ro with raw := ro.raw.push ("unparsable " ++ " ".intercalate rest) }
      | "d" :: r :: rest =>
        let ro := runs.getD r {}
        runs := runs.insert r { ro with drops := ro.drops.push (" ".intercalate rest) }
      | "bt" :: r :: rest =>
        let ro := runs.getD r {}
        runs := runs.insert r { ro with built := " ".intercalate rest }
      | "res" :: r :: rest =>
        let ro := runs.getD r {}
        runs := runs.insert r { ro with res := " ".intercalate rest }
      | _ => pure ()
    -- `cq=<n>:<ns>`: the builder was configured (calendar-queue geometry, non-binding options in some call order);
    -- run `g` is the same (model, seed) with the plain builder and the default geometry
    let hasGeo := (kv htoks "cq").isSome
    let noModel := (kv htoks "nomodel") == some "1"
    let names := (if wantChild then ["a1", "a2", "b", "c"] else ["a1", "a2", "b"]) ++ (if hasGeo then ["g"] else [])
    match names.find? (fun n => (runs[n]?).isNone || (runs.getD n {}).res == "") with
    | some n =>
      IO.println s!"fail {id} op=0 kind=harness detail=run-{n}-missing"
      continue
    | none => pure ()
    let a1 := runs.getD "a1" {}
    if (runs.getD "c" {}).res.startsWith "err=child-failed" then
      IO.println s!"fail {id} op=0 kind=harness detail=child-process-failed"
      continue
    -- 1. real executions against each other
    let mut verdict : Option String := none
    let mut tearOrder : Option String := none
    for n in names.drop 1 do
      if verdict.isSome then break
      let r := runs.getD n {}
      let x := a1.raw.push ("res " ++ a1.res)
      let y := r.raw.push ("res " ++ r.res)
      match firstDiff x y with
      | some i =>
        -- two deliveries that differ only in the path the sender id resolved to: an id collision
        -- (`ModuleId::NULL` handed out to a module after the u16 counter wrapped)
        let clause := match (a1.obs[i]?), (r.obs[i]?) with
          | some o1, some o2 =>
            if o1.what == "msg" && { o1 with peer := "" } == { o2 with peer := "" } && o1.peer != o2.peer
            then "sender-resolution" else (if n == "g" then "geometry-dependence" else "nondeterminism")
          | _, _ => if n == "g" then "geometry-dependence" else "nondeterminism"
        verdict := some s!"fail {id} op={i} kind=reject clause={clause} pair=a1/{n} seed={seed} first={us (x[i]?.getD "<end>")} other={us (y[i]?.getD "<end>")}"
      | none =>
        if sortStrings a1.drops != sortStrings r.drops then
          verdict := some s!"fail {id} op={a1.raw.size} kind=reject clause=nondeterminism pair=a1/{n} seed={seed} what=unfinished-task-sets-differ"
        else if a1.drops != r.drops && tearOrder.isNone then
          let i := (firstDiff a1.drops r.drops).getD 0
          tearOrder := some s!"fail {id} op={a1.raw.size + i} kind=reject clause=teardown-order pair=a1/{n} seed={seed} first={us (a1.drops[i]?.getD "<end>")} other={us (r.drops[i]?.getD "<end>")}"
        else if a1.built != r.built && tearOrder.isNone then
          tearOrder := some s!"fail {id} op=0 kind=reject clause=build-time-clock pair=a1/{n} seed={seed} first={a1.built} other={r.built}"
    if let some v := verdict then
      IO.println v
      continue
    -- every transmission must have used the exact length of its message (header + serial + all entries of the body)
    let want := bodyLength c.body
    let badLen := (a1.raw.toList.zipIdx).find? (fun x => match words x.1 with
      | _ :: _ :: "xmit" :: _ :: _ :: _ :: len :: _ => len.toNat? != some want
      | _ => false)
    if let some (l, i) := badLen then
      IO.println s!"fail {id} op={i} kind=reject clause=message-length seed={seed} want={want} line={us l}"
      continue
    -- `nomodel=1`: the case uses what the model does not cover (tasks on the module's LocalSet, logged as `L.<tag>`):
    -- the comparison of the real executions is the whole check
    if noModel then
      if let some v := tearOrder then
        IO.println v
        continue
      let cntw := fun (w : String) => (a1.obs.filter (·.what == w)).size
      let localDecisive := a1.obs.any (fun o => o.what == "sel" && o.who.startsWith "L." &&
        (match sc.tasks.find? (·.1 == (o.who.drop 2)) with
         | some t => hasDecisiveSel t.2
         | none => false))
      let nt := localDecisive && wantChild && sc.created.length ≥ 2
      IO.println s!"ok {id} nt={if nt then 1 else 0} mods={sc.created.length} obs={a1.obs.size} nomodel=1 localsels={(a1.obs.filter (fun o => o.what == "sel" && o.who.startsWith "L.")).size} sels={cntw "sel"} msgs={cntw "msg"} child={if wantChild then 1 else 0} geo={if hasGeo then 1 else 0}"
      continue
    -- 2. the model on the recorded stream
    match streamOf sc a1 with
    | .error e =>
      IO.println s!"fail {id} op=0 kind=diverge detail=stream:{us e}"
      continue
    | .ok stream =>
      -- an NDL network: the order in which `transform` lists the submodules (= creation, start and end order) is
      -- an input, read off trace a1 (C18: it is a function of the description); the root comes first
      let ndlMods : List ModSpec := Id.run do
        let mut order : List String := ["^"]
        for o in a1.obs do
          if o.what == "start" && !order.contains o.path then order := order ++ [o.path]
        for m in sc.created do
          if !order.contains m.1 then order := order ++ [m.1]
        let names := order.filter (fun p => p == "^" || sc.created.any (·.1 == p))
        return names.zipIdx.map (fun x => ⟨x.1, ((sc.created.find? (·.1 == x.1)).map (·.2)).getD 0, x.2⟩)
      let net : Net := { mods := if sc.ndl then ndlMods else treeOrder sc.created, links := sc.links, rules := sc.rules, tasks := sc.tasks, skipEmpty := skipEmpty }
      -- a non-canonical ambient (the result does not depend on it: C04.trace_ambient_independent)
      let base := seed % 60000
      let amb : Ambient := ⟨fun k => 255 + base + k, fun k => 7 * base + k⟩
      let res := run net amb stream 200000
      let mtrace := (res.trace.map fmtObs).toArray
      match firstDiff mtrace (a1.raw.map modelView) with
      | some i =>
        IO.println s!"fail {id} op={i} kind=diverge seed={seed} model={us (mtrace[i]?.getD "<end>")} impl={us (a1.raw[i]?.getD "<end>")}"
        continue
      | none => pure ()
      let mres := match res.fault with
        | some f => s!"err=model-fault:{f}"
        | none => s!"ok time={res.time} events={res.events} left={res.left}"
      if mres != a1.res then
        IO.println s!"fail {id} op={a1.raw.size} kind=diverge seed={seed} model={us mres} impl={us a1.res}"
        continue
      if !res.rest.isEmpty then
        IO.println s!"fail {id} op={a1.raw.size} kind=diverge seed={seed} detail=stream-not-used-up:{res.rest.length}"
        continue
      let munf := sortStrings ((res.unfinished.map (fun p => s!"{p.1} {p.2}")).toArray)
      if munf != sortStrings a1.drops then
        IO.println s!"fail {id} op={a1.raw.size} kind=diverge seed={seed} detail=unfinished-tasks model={us (toString munf)} impl={us (toString (sortStrings a1.drops))}"
        continue
      if let some v := tearOrder then
        IO.println v
        continue
      -- evidence
      let cnt := fun (w : String) => (a1.obs.filter (·.what == w)).size
      let jit := (a1.obs.filter (fun o => o.what == "xmit" &&
        (match sc.links.find? (fun l => l.src == o.who && l.dst == o.peer) with
         | some ⟨_, _, some (_, j, _)⟩ => j != 0
         | _ => false))).size
      -- sends that found their channel busy (more `send`s over channels than transmissions started at that moment
      -- is hard to read off; count transmissions that start outside a send: unbusy dequeues and delayed sends)
      let sendin := (a1.obs.filter (fun o => o.what == "send" && (o.args.getD 3 0) != 0)).size
      let endEmits := Id.run do
        let mut ending := false
        let mut n := 0
        for o in a1.obs do
          if o.what == "end" then ending := true
          if ending && (o.what == "send" || o.what == "sched") then n := n + 1
        return n
      let draws := cnt "draw" + cnt "draw32"
      let remote := (a1.obs.filter (fun o => o.what == "msg" && o.peer != "-")).size
      let decisive := a1.obs.any (fun o => o.what == "sel" &&
        (match sc.tasks.find? (·.1 == o.who) with
         | some t => hasDecisiveSel t.2
         | none => false))
      -- a decisive select! completed by a module after one of its `reset`s (incarnation >= 1)
      let mut resetSeen : Std.HashSet String := {}
      let mut decisiveLater := false
      for o in a1.obs do
        if o.what == "reset" then resetSeen := resetSeen.insert o.path
        if o.what == "sel" && resetSeen.contains o.path then
          match sc.tasks.find? (·.1 == o.who) with
          | some t => if hasDecisiveSel t.2 then decisiveLater := true
          | none => pure ()
      let restarts := cnt "reset"
      let nt := sc.created.length ≥ 2 && draws ≥ 1 && remote ≥ 1 && decisive && wantChild &&
        (jit ≥ 1 || decisiveLater)
      -- an NDL-built network: >= 4 modules started, each start draws (who draws what depends on the elaboration order)
      let starts := cnt "start"
      let ntNdl := sc.ndl && starts ≥ 5 && draws ≥ starts - 1 && cnt "msg" ≥ 3 && wantChild
      let nt := nt || ntNdl
      IO.println s!"ok {id} nt={if nt then 1 else 0} mods={sc.created.length} obs={a1.obs.size} draws={draws} jitter={jit} selpolls={cnt "sp"} sels={cnt "sel"} msgs={cnt "msg"} wakes={cnt "woke"} unfinished={a1.drops.size} child={if wantChild then 1 else 0} stream={stream.length} resets={restarts} laterdecisive={if decisiveLater then 1 else 0} xmits={cnt "xmit"} sendin={sendin} sigs={cnt "sig"} gots={cnt "got"} endemits={endEmits} ndl={if sc.ndl then 1 else 0} geo={if hasGeo then 1 else 0}"

end Driver.C04

/-
Driver for C05: parses the scripted timer programs of a case, runs them through the Lean model
(`Timer.Sim.run` with the repaired `Timer.next` — the definitions the theorems in Props/C05.lean are
about) and compares every observation the real simulation produced (completion times of every
await, timeout outcomes, interval ticks, final time, unfinished / cancelled joins).

kind=reject : the implementation history contradicts the property itself, decided without the
              model for tasks made of plain `sleep D | until T | timeout D sleep D2 | nop` lines in
              modules that never shut down (completion time must be previous completion + D, …),
              or the model run violates the wake-up invariant, or a sleep / timeout of the model run
              completes at a time other than max(deadline, time of its first poll)
kind=diverge: implementation ≠ model anywhere else
-/
import Desverif.Model.TimerSim
import Driver.Common
namespace Driver.C05
open Timer Driver

def parseE : Nat → List String → Option (Fut × List String)
  | 0, _ => none
  | fuel + 1, toks =>
    match toks with
    | "nop" :: r => some (.nop, r)
    | "forever" :: r => some (.until_ tMax, r)
    | "sleep" :: d :: r => d.toNat?.map fun d => (.sleep d, r)
    | "until" :: t :: r => t.toNat?.map fun t => (.until_ t, r)
    | "timeout" :: d :: r =>
      match d.toNat?, parseE fuel r with
      | some d, some (e, r') => some (.timeout d e, r')
      | _, _ => none
    | "select" :: r =>
      match parseE fuel r with
      | some (a, r1) =>
        match parseE fuel r1 with
        | some (b, r2) => some (.select a b, r2)
        | none => none
      | none => none
    | "seq" :: r =>
      match parseE fuel r with
      | some (a, r1) =>
        match parseE fuel r1 with
        | some (b, r2) => some (.seq a b, r2)
        | none => none
      | none => none
    | "new" :: x :: d :: r => d.toNat?.map fun d => (.new x d, r)
    | "newu" :: x :: t :: r => t.toNat?.map fun t => (.newu x t, r)
    | "poll" :: x :: r => some (.pollOnce x, r)
    | "reset" :: x :: d :: r => d.toNat?.map fun d => (.reset x d, r)
    | "resetu" :: x :: t :: r => t.toNat?.map fun t => (.resetu x t, r)
    | "drop" :: x :: r => some (.drop x, r)
    | "await" :: x :: r => some (.await x, r)
    | "inew" :: x :: p :: m :: d :: r =>
      let mode : Option Missed := match m with
        | "burst" => some .burst | "delay" => some .delay | "skip" => some .skip | _ => none
      match p.toNat?, mode, d.toNat? with
      | some p, some mode, some d => if p = 0 then none else some (.inew x p mode d, r)
      | _, _, _ => none
    | "tick" :: x :: r => some (.tick x, r)
    | "ireset" :: x :: r => some (.ireset x, r)
    | "restart" :: d :: r => d.toNat?.map fun d => (.restart d, r)
    | "halt" :: r => some (.halt, r)
    | _ => none

structure TLine where
  idx : Nat
  mod : Nat
  task : String
  fut : Fut
  text : String
  impl : List String

/-- group lines into modules → tasks (in order of first appearance) → lines -/
def addLine (progs : Array (List (String × List (Nat × Fut)))) (l : TLine) :
    Array (List (String × List (Nat × Fut))) :=
  progs.modify l.mod fun tasks =>
    if tasks.any (·.1 == l.task) then
      tasks.map fun (tag, ls) => if tag == l.task then (tag, ls ++ [(l.idx, l.fut)]) else (tag, ls)
    else tasks ++ [(l.task, [(l.idx, l.fut)])]

def showObs (o : Obs) : String := s!"{o.inc}.{o.kind}@{o.time}"

def usesShutdown : Fut → Bool
  | .restart _ | .halt => true
  | .timeout _ e | .timeoutRun _ e => usesShutdown e
  | .select a b | .seq a b => usesShutdown a || usesShutdown b
  | _ => false

/-- model-free expectation for a plain line, given the task's clock; `none` = not a plain line -/
def plainLine (clock : Nat) : Fut → Option (Nat × List String)
  | .nop => some (clock, [])
  | .sleep d => some (clock + d, [s!"0.s@{clock + d}"])
  | .until_ t => if t ≥ tMax then none else let c := max clock t; some (c, [s!"0.s@{c}"])
  | .timeout d (.sleep d2) =>
    if d2 ≤ d then some (clock + d2, [s!"0.s@{clock + d2}", s!"0.ok@{clock + d2}"])
    else some (clock + d, [s!"0.el@{clock + d}"])
  | _ => none

/-- expected observations of a plain task: list of (line idx, tokens); `none` if not plain -/
def plainTask (clock : Nat) : List (Nat × Fut) → Option (Nat × List (Nat × List String))
  | [] => some (clock, [])
  | (i, f) :: rest =>
    match plainLine clock f with
    | none => none
    | some (c, toks) =>
      match plainTask c rest with
      | none => none
      | some (c', r) => some (c', (i, toks) :: r)

def joinSp (l : List String) : String := if l.isEmpty then "-" else " ".intercalate l

def natList (s : String) : List Nat := (s.splitOn ",").filterMap String.toNat?

def runCase (c : Case) : String := Id.run do
  let h := words c.header
  let id := (h[1]?).getD "?"
  let nmods := min (max ((kvNat h "mods").getD 1) 1) 8
  let mut lines : Array TLine := #[]
  let mut fin : Option (List String) := none
  let mut i := 0
  for line in c.body do
    if line.startsWith "end" then continue
    let (lhs, rhs) := splitArrow line
    let l := words lhs
    match l with
    | "fin" :: _ => fin := some (words rhs)
    | "t" :: m :: task :: rest =>
      match m.toNat?, parseE (rest.length + 1) rest with
      | some m, some (f, []) =>
        if m < nmods then
          lines := lines.push ⟨i, m, task, f, lhs, (words rhs).filter (· ≠ "-")⟩
        else return s!"fail {id} op={i} kind=badline detail=[{line}]"
      | _, _ => return s!"fail {id} op={i} kind=badline detail=[{line}]"
    | _ => return s!"fail {id} op={i} kind=badline detail=[{line}]"
    i := i + 1
  let mut progs : Array (List (String × List (Nat × Fut))) := Array.replicate nmods []
  for l in lines do progs := addLine progs l
  let progsL : List (List (List (Nat × Fut))) := progs.toList.map fun tasks => tasks.map (·.2)
  -- (A) model-free acceptance of plain tasks
  let mut allPlain := true
  let mut specEnd := 0
  for tasks in progsL do
    let shut := tasks.any fun t => t.any fun (_, f) => usesShutdown f
    for t in tasks do
      match (if shut then none else plainTask 0 t) with
      | none => allPlain := false
      | some (e, exp) =>
        specEnd := max specEnd e
        for (li, toks) in exp do
          match lines.find? (·.idx == li) with
          | some l =>
            if l.impl != toks then
              return s!"fail {id} op={li} kind=reject clause=deadline line=[{l.text}] spec={joinSp toks} impl={joinSp l.impl}"
          | none => pure ()
  -- (T) the model run
  match Sim.run next progsL with
  | none => return s!"fail {id} op=0 kind=internal detail=model-fuel-exhausted"
  | some s =>
    if !s.invOk then
      return s!"fail {id} op=0 kind=reject clause=wakeinv detail=model-run-violates-WakeInv"
    let slog := s.mods.flatMap (·.log)
    -- the model run itself must show every own sleep / timeout completing at max(deadline, first poll)
    for o in slog do
      if o.own && o.time < tMax then
        match o.due with
        | some d =>
          if o.time != max d o.since then
            return s!"fail {id} op={o.line} kind=reject clause=late-completion model={showObs o} due={d} since={o.since}"
        | none => pure ()
    for l in lines do
      let mtoks := (slog.filter (·.line == l.idx)).map showObs
      if mtoks != l.impl then
        return s!"fail {id} op={l.idx} kind=diverge line=[{l.text}] model={joinSp mtoks} impl={joinSp l.impl}"
    let munf := s.mods.map fun m => (m.tasks.filter (fun t => !t.done)).length
    let mcan := s.mods.map (·.cancelled)
    match fin with
    | none => pure ()
    | some r =>
      match kvNat r "time", kv r "unfinished", kv r "cancelled", kvNat r "errs" with
      | some t, some u, some k, some e =>
        if e != 0 then
          return s!"fail {id} op={i} kind=reject clause=errors impl=[{" ".intercalate r}]"
        if allPlain && (t != specEnd || (natList u).any (· != 0)) then
          return s!"fail {id} op={i} kind=reject clause=final spec=time={specEnd},unfinished=0 impl=[{" ".intercalate r}]"
        if t != s.now || natList u != munf || natList k != mcan then
          return s!"fail {id} op={i} kind=diverge line=[fin] model=time={s.now},unfinished={munf},cancelled={mcan} impl=[{" ".intercalate r}]"
      | _, _, _, _ =>
        return s!"fail {id} op={i} kind=reject clause=panic impl=[{" ".intercalate r}]"
    let fired := (s.mods.map (·.fired)).foldl (· + ·) 0
    let ef := (s.mods.map (·.emptyFront)).foldl (· + ·) 0
    let ties := (s.mods.map (·.ties)).foldl (· + ·) 0
    let restarts := (s.mods.map (·.inc)).foldl (· + ·) 0
    let el := (slog.filter (·.kind == "el")).length
    let ticks := (slog.filter (·.kind.startsWith "k")).length
    let unf := munf.foldl (· + ·) 0
    let nt := ef > 0 && fired ≥ 2
    return s!"ok {id} nt={if nt then 1 else 0} events={s.events} fired={fired} emptyfront={ef} ties={ties} restarts={restarts} elapsed={el} ticks={ticks} unfinished={unf} obs={slog.length}"

def main (stdin : IO.FS.Stream) : IO Unit := do
  let cases ← readCases stdin
  for c in cases do
    IO.println (runCase c)

end Driver.C05

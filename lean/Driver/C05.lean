/-
Driver for C05: parses the scripted timer programs of a case, runs them through the Lean model
(`Timer.Sim.run` with the repaired `Timer.next` — the definitions the theorems in Props/C05.lean are
about) and compares every observation the real simulation produced (completion times of every
await, timeout outcomes, interval ticks, final time, unfinished / cancelled joins).

kind=reject : the implementation history contradicts the property itself, decided without the
              model for tasks made of plain `sleep D | until T | timeout D sleep D2 | nop` lines in
              modules that never shut down (completion time must be previous completion + D, …),
              or the model run violates the wake-up invariant, or a sleep / timeout of the model run
              completes at a time other than max(deadline, time of its first poll)
kind=diverge: implementation ≠ model anywhere else
-/
import Desverif.Model.TimerSim
import Driver.Common
namespace Driver.C05
open Timer Driver

def parseE : Nat → List String → Option (Fut × List String)
  | 0, _ => none
  | fuel + 1, toks =>
    match toks with
    | "nop" :: r => some (.nop, r)
    | "forever" :: r => some (.until_ tMax, r)
    | "sleep" :: d :: r => d.toNat?.map fun d => (.sleep d, r)
    | "until" :: t :: r => t.toNat?.map fun t => (.until_ t, r)
    | "timeout" :: d :: r =>
      match d.toNat?, parseE fuel r with
      | some d, some (e, r') => some (.timeout d e, r')
      | _, _ => none
    | "select" :: r =>
      match parseE fuel r with
      | some (a, r1) =>
        match parseE fuel r1 with
        | some (b, r2) => some (.select a b, r2)
        | none => none
      | none => none
    | "seq" :: r =>
      match parseE fuel r with
      | some (a, r1) =>
        match parseE fuel r1 with
        | some (b, r2) => some (.seq a b, r2)
        | none => none
      | none => none
    | "new" :: x :: d :: r => d.toNat?.map fun d => (.new x d, r)
    | "newu" :: x :: t :: r => t.toNat?.map fun t => (.newu x t, r)
    | "poll" :: x :: r => some (.pollOnce x, r)
    | "reset" :: x :: d :: r => d.toNat?.map fun d => (.reset x d, r)
    | "resetu" :: x :: t :: r => t.toNat?.map fun t => (.resetu x t, r)
    | "drop" :: x :: r => some (.drop x, r)
    | "await" :: x :: r => some (.await x, r)
    | "inew" :: x :: p :: m :: d :: r =>
      let mode : Option Missed := match m with
        | "burst" => some .burst | "delay" => some .delay | "skip" => some .skip | _ => none
      match p.toNat?, mode, d.toNat? with
      | some p, some mode, some d => if p = 0 then none else some (.inew x p mode d, r)
      | _, _, _ => none
    | "tick" :: x :: r => some (.tick x, r)
    | "ireset" :: x :: r => some (.ireset x, r)
    | "restart" :: d :: r => d.toNat?.map fun d => (.restart d, r)
    | "halt" :: r => some (.halt, r)
    | _ => none

structure TLine where
  idx : Nat
  mod : Nat
  task : String
  fut : Fut
  text : String
  impl : List String

/-- group lines into modules → tasks (in order of first appearance) → lines -/
def addLine (progs : Array (List (String × List (Nat × Fut)))) (l : TLine) :
    Array (List (String × List (Nat × Fut))) :=
  progs.modify l.mod fun tasks =>
    if tasks.any (·.1 == l.task) then
      tasks.map fun (tag, ls) => if tag == l.task then (tag, ls ++ [(l.idx, l.fut)]) else (tag, ls)
    else tasks ++ [(l.task, [(l.idx, l.fut)])]

def showObs (o : Obs) : String := s!"{o.inc}.{o.kind}@{o.time}"

def usesShutdown : Fut → Bool
  | .restart _ | .halt => true
  | .timeout _ e | .timeoutRun _ e => usesShutdown e
  | .select a b | .seq a b => usesShutdown a || usesShutdown b
  | _ => false

/-! ### model-free sequential specification

Straight-line tasks (no `select`, no nested futures except `timeout D sleep D2`) have an obvious
meaning that needs neither the queue nor the wake-up machinery: the task has a clock; `sleep D`
advances it by `D`; awaiting a deadline moves it to max(clock, deadline); a named `Sleep` is just
its deadline; an `Interval` is its next deadline, re-armed per `MissedTickBehavior`; a module with
a single `restart` / `halt` line runs until the instant the request is made and (for `restart D`)
once more from `D` later.  Deviations of the implementation from this are `kind=reject`. -/

inductive SNamed
  | sl (dl : Nat)
  | iv (dl p : Nat) (m : Missed)

structure SpecSt where
  clock : Nat
  named : List (String × SNamed) := []
  /-- first shutdown request: (time, restart delay) -/
  shut : Option (Nat × Option Nat) := none

def sGet (st : SpecSt) (x : String) : Option SNamed := (st.named.find? (·.1 == x)).map (·.2)
def sSet (st : SpecSt) (x : String) (v : SNamed) : SpecSt :=
  { st with named := (x, v) :: st.named.filter (·.1 != x) }

/-- one plain line: new state and (kind, time) observations; `none` = not a plain line -/
def specLine (inc : Nat) (st : SpecSt) : Fut → Option (SpecSt × List (String × Nat))
  | .nop => some (st, [])
  | .sleep d => let c := st.clock + d; some ({ st with clock := c }, [("s", c)])
  | .until_ t => if t ≥ tMax then none else
      let c := max st.clock t; some ({ st with clock := c }, [("s", c)])
  | .timeout d (.sleep d2) =>
    if d2 ≤ d then let c := st.clock + d2; some ({ st with clock := c }, [("s", c), ("ok", c)])
    else let c := st.clock + d; some ({ st with clock := c }, [("el", c)])
  | .new x d => some (sSet st x (.sl (st.clock + d)), [])
  | .newu x t => some (sSet st x (.sl t), [])
  | .pollOnce x =>
    match sGet st x with
    | some (.sl dl) => some (st, [(if dl ≤ st.clock then "rdy" else "pnd", st.clock)])
    | _ => some (st, [("mis", st.clock)])
  | .reset x d =>
    match sGet st x with
    | some (.sl _) => some (sSet st x (.sl (st.clock + d)), [])
    | _ => some (st, [])
  | .resetu x t =>
    match sGet st x with
    | some (.sl _) => some (sSet st x (.sl t), [])
    | _ => some (st, [])
  | .drop x => some ({ st with named := st.named.filter (·.1 != x) }, [])
  | .await x =>
    match sGet st x with
    | some (.sl dl) => if dl ≥ tMax then none else
        let c := max st.clock dl; some ({ st with clock := c }, [("a", c)])
    | _ => some (st, [("mis", st.clock)])
  | .inew x p m d => some (sSet st x (.iv (st.clock + d) p m), [])
  | .tick x =>
    match sGet st x with
    | some (.iv dl p m) =>
      let c := max st.clock dl
      let nxt := (Interval.mk { id := 0, deadline := dl } p m).nextDeadline dl c
      some (sSet { st with clock := c } x (.iv nxt p m), [("k" ++ toString dl, c)])
    | _ => some (st, [("mis", st.clock)])
  | .ireset x =>
    match sGet st x with
    | some (.iv _ p m) => some (sSet st x (.iv (st.clock + p) p m), [])
    | _ => some (st, [])
  | .restart d =>
    if inc = 0 && st.shut.isNone then some ({ st with shut := some (st.clock, some d) }, []) else some (st, [])
  | .halt => if st.shut.isNone then some ({ st with shut := some (st.clock, none) }, []) else some (st, [])
  | _ => none

/-- a plain task: (line idx, kind, time) observations, end clock, shutdown request -/
def specTask (inc : Nat) (st : SpecSt) : List (Nat × Fut) → Option (SpecSt × List (Nat × String × Nat))
  | [] => some (st, [])
  | (i, f) :: rest =>
    match specLine inc st f with
    | none => none
    | some (st1, obs) =>
      match specTask inc st1 rest with
      | none => none
      | some (st2, r) => some (st2, obs.map (fun (k, t) => (i, k, t)) ++ r)

/-- expected tokens per line for the plain tasks of a module with at most one shutdown line
    (which must be in a plain task): (line idx, token) for every line of every plain task, the list
    of checked line indices, the end clock of the plain tasks, and whether *all* tasks are plain and
    nothing shuts down -/
def specModule (tasks : List (List (Nat × Fut))) : Option (List (Nat × String) × List Nat × Nat × Bool) := do
  let shutLines := (tasks.map fun t => (t.filter fun (_, f) => usesShutdown f).length).foldl (· + ·) 0
  if shutLines > 1 then none
  let runs0 := tasks.map fun t => (t, specTask 0 { clock := 0 } t)
  -- the task that requests the shutdown must be plain
  if shutLines == 1 && !(runs0.any fun (t, r) => t.any (fun (_, f) => usesShutdown f) && r.isSome) then none
  let plain0 := runs0.filterMap fun (t, r) => r.map fun r => (t, r)
  let req := (plain0.filterMap (·.2.1.shut)).head?
  let fmt (inc : Nat) (o : Nat × String × Nat) : Nat × String := (o.1, s!"{inc}.{o.2.1}@{o.2.2}")
  let checked := plain0.flatMap fun (t, _) => t.map (·.1)
  let allPlain := plain0.length == tasks.length && shutLines == 0
  match req with
  | none =>
    let toks := (plain0.flatMap (·.2.2)).map (fmt 0)
    some (toks, checked, (plain0.map (·.2.1.clock)).foldl max 0, allPlain)
  | some (tq, restart) =>
    let toks0 := ((plain0.flatMap (·.2.2)).filter (fun o => o.2.2 ≤ tq)).map (fmt 0)
    match restart with
    | none => some (toks0, checked, tq, false)
    | some d =>
      let runs1 := plain0.filterMap fun (t, _) => specTask 1 { clock := tq + d } t
      let toks1 := (runs1.flatMap (·.2)).map (fmt 1)
      some (toks0 ++ toks1, checked, tq + d, false)

def usesNamed : Fut → Bool
  | .new .. | .newu .. | .pollOnce _ | .reset .. | .resetu .. | .drop _ | .await _
  | .inew .. | .tick _ | .ireset _ => true
  | _ => false

def joinSp (l : List String) : String := if l.isEmpty then "-" else " ".intercalate l

def natList (s : String) : List Nat := (s.splitOn ",").filterMap String.toNat?

def runCase (c : Case) : String := Id.run do
  let h := words c.header
  let id := (h[1]?).getD "?"
  let nmods := min (max ((kvNat h "mods").getD 1) 1) 8
  let mut lines : Array TLine := #[]
  let mut fin : Option (List String) := none
  let mut i := 0
  for line in c.body do
    if line.startsWith "end" then continue
    let (lhs, rhs) := splitArrow line
    let l := words lhs
    match l with
    | "fin" :: _ => fin := some (words rhs)
    | "t" :: m :: task :: rest =>
      match m.toNat?, parseE (rest.length + 1) rest with
      | some m, some (f, []) =>
        if m < nmods then
          lines := lines.push ⟨i, m, task, f, lhs, (words rhs).filter (· ≠ "-")⟩
        else return s!"fail {id} op={i} kind=badline detail=[{line}]"
      | _, _ => return s!"fail {id} op={i} kind=badline detail=[{line}]"
    | _ => return s!"fail {id} op={i} kind=badline detail=[{line}]"
    i := i + 1
  let mut progs : Array (List (String × List (Nat × Fut))) := Array.replicate nmods []
  for l in lines do progs := addLine progs l
  let progsL : List (List (List (Nat × Fut))) := progs.toList.map fun tasks => tasks.map (·.2)
  -- (S) only plain script terms
  for l in lines do
    if !l.fut.isSrc then return s!"fail {id} op={l.idx} kind=badline detail=not-a-source-term"
  -- (A) model-free acceptance of modules made of plain tasks
  let mut allPlain := true
  let mut specEnd := 0
  let mut specLines := 0
  for tasks in progsL do
    match specModule tasks with
    | none => allPlain := false
    | some (exp, checked, e, simple) =>
      specEnd := max specEnd e
      if !simple || tasks.any (fun t => t.any fun (_, f) => usesNamed f) then allPlain := false
      for li in checked do
        specLines := specLines + 1
        match lines.find? (·.idx == li) with
        | some l =>
          let toks := (exp.filter (·.1 == li)).map (·.2)
          if l.impl != toks then
            return s!"fail {id} op={li} kind=reject clause=deadline line=[{l.text}] spec={joinSp toks} impl={joinSp l.impl}"
        | none => pure ()
  -- (T) the model run
  match Sim.run next progsL with
  | none => return s!"fail {id} op=0 kind=internal detail=model-fuel-exhausted"
  | some s =>
    if !s.invOk then
      return s!"fail {id} op=0 kind=reject clause=wakeinv detail=model-run-violates-WakeInv"
    let slog := s.mods.flatMap (·.log)
    -- the model run itself must show every own sleep / timeout completing at max(deadline, first poll)
    for o in slog do
      if o.own && o.time < tMax then
        match o.due with
        | some d =>
          if o.time != max d o.since then
            return s!"fail {id} op={o.line} kind=reject clause=late-completion model={showObs o} due={d} since={o.since}"
        | none => pure ()
    for l in lines do
      let mtoks := (slog.filter (·.line == l.idx)).map showObs
      if mtoks != l.impl then
        return s!"fail {id} op={l.idx} kind=diverge line=[{l.text}] model={joinSp mtoks} impl={joinSp l.impl}"
    let munf := s.mods.map fun m => (m.tasks.filter (fun t => !t.done)).length
    let mcan := s.mods.map (·.cancelled)
    match fin with
    | none => pure ()
    | some r =>
      match kvNat r "time", kv r "unfinished", kv r "cancelled", kvNat r "errs" with
      | some t, some u, some k, some e =>
        if e != 0 then
          return s!"fail {id} op={i} kind=reject clause=errors impl=[{" ".intercalate r}]"
        if allPlain && (t != specEnd || (natList u).any (· != 0)) then
          return s!"fail {id} op={i} kind=reject clause=final spec=time={specEnd},unfinished=0 impl=[{" ".intercalate r}]"
        if t != s.now || natList u != munf || natList k != mcan then
          return s!"fail {id} op={i} kind=diverge line=[fin] model=time={s.now},unfinished={munf},cancelled={mcan} impl=[{" ".intercalate r}]"
      | _, _, _, _ =>
        return s!"fail {id} op={i} kind=reject clause=panic impl=[{" ".intercalate r}]"
    let fired := (s.mods.map (·.fired)).foldl (· + ·) 0
    let ef := (s.mods.map (·.emptyFront)).foldl (· + ·) 0
    let ties := (s.mods.map (·.ties)).foldl (· + ·) 0
    let restarts := (s.mods.map (·.inc)).foldl (· + ·) 0
    let el := (slog.filter (·.kind == "el")).length
    let ticks := (slog.filter (·.kind.startsWith "k")).length
    let unf := munf.foldl (· + ·) 0
    let sum (f : Mod → Nat) : Nat := (s.mods.map f).foldl (· + ·) 0
    let lateticks := (slog.filter fun o => o.kind.startsWith "k" && (match o.due with | some d => d < o.time | none => false)).length
    let own := (slog.filter (·.own)).length
    let nt := ef > 0 && fired ≥ 2
    return s!"ok {id} nt={if nt then 1 else 0} events={s.events} fired={fired} emptyfront={ef} ties={ties} restarts={restarts} elapsed={el} ticks={ticks} unfinished={unf} obs={slog.length} crowd={sum (·.crowd)} resetlater={sum (·.resetLater)} resetearlier={sum (·.resetEarlier)} dropreg={sum (·.dropReg)} stalewake={sum (·.staleWake)} staleinc={sum (·.staleInc)} wakeinactive={sum (·.wakeInactive)} lateticks={lateticks} owncompl={own} speclines={specLines} twins={sum (·.twins)} twincancel={sum (·.twinCancel)}"

def main (stdin : IO.FS.Stream) : IO Unit := do
  let cases ← readCases stdin
  for c in cases do
    IO.println (runCase c)

end Driver.C05

/-
Driver for C12: replays an implementation transcript (harness/src/c12.rs) through
* the model of the builder / module tree / lifecycle loops / object paths
  (`ModTree.node`, `ModTree.startCalls`, `ModTree.endCalls`, `ObjPath.*`) — kind=diverge, and
* the abstract declared-tree specification (`PreSpec.declare`, `preorder`, `startSpec`, `endSpec`)
  — kind=reject,
i.e. the very definitions the theorems in Props/C12.lean are about.
-/
import Desverif.Model.ModTree
import Desverif.Model.ModRun
import Desverif.Spec.Preorder
import Driver.Common
namespace Driver.C12
open Driver ModTree

abbrev Bytes := List Nat

def bytesOf (s : String) : Bytes := s.toUTF8.toList.map (·.toNat)
def untok (s : String) : Bytes := if s = "~" then [] else bytesOf s

def strOf (bs : Bytes) : String :=
  if bs.isEmpty then "~"
  else match String.fromUTF8? (ByteArray.mk (bs.map UInt8.ofNat).toArray) with
    | some s => s
    | none => "<bad-utf8>"

/-- `str::split('.')` on bytes -/
def splitDot : Bytes → List Bytes
  | [] => [[]]
  | b :: rest =>
    match splitDot rest with
    | [] => [[b]]     -- unreachable
    | seg :: segs => if b = ObjPath.DOT then [] :: seg :: segs else (b :: seg) :: segs

def bytesLt : Bytes → Bytes → Bool
  | [], [] => false
  | [], _ :: _ => true
  | _ :: _, [] => false
  | a :: as, b :: bs => if a < b then true else if b < a then false else bytesLt as bs

def insertSorted (x : Bytes) : List Bytes → List Bytes
  | [] => [x]
  | y :: ys => if x = y then y :: ys else if bytesLt x y then x :: y :: ys else y :: insertSorted x ys

def joinWith (sep : String) (xs : List String) : String := sep.intercalate xs

/-- a path is in the specification's domain iff every segment is a non-empty name -/
def wfSegs (b : Bytes) : Option (List Bytes) :=
  if b.isEmpty then some []
  else
    let segs := splitDot b
    if segs.all (fun s => !s.isEmpty) then some segs else none

def render (segs : List Bytes) : Bytes := (segs.intersperse [ObjPath.DOT]).flatten

abbrev SDecl := PreSpec.Decl Bytes

structure St where
  b : Builder := {}
  wakes : Array Nat := #[]
  fails : Array Nat := #[]
  sfails : List (Bytes × Nat) := []
  errs : Nat := 0
  /-- accepted declarations; `none` once a node outside the specification's domain was accepted -/
  spec : Option (List SDecl) := some []
  swakes : List (Bytes × Nat) := []
  mods : Nat := 0
  midins : Nat := 0
  rejects : Nat := 0
  pathops : Nat := 0
  msgs : Nat := 0
  starts : Nat := 0
  weird : Nat := 0

def showErr : Option BErr → String
  | none => "ok"
  | some .dup => "dup"
  | some .noParent => "noparent"
  | some .treeNoParent => "noparent"
  | some (.path _) => "panic"
  | some .insertOob => "panic"

def showAns : PreSpec.Ans → String
  | .ok => "ok" | .dup => "dup" | .noParent => "noparent"

def pathTok (p : ObjPath.Path) : String := strOf p.data

/-- model answer for `path <s>` -/
def pathObs (s : Bytes) : String :=
  let p := ObjPath.fromStr s
  let r : Except ObjPath.Err String := do
    let nm ← ObjPath.name p
    let ps ← ObjPath.asParentStr p
    let par ← ObjPath.parent p
    let (pars, plen, pname) ← match par with
      | some q => do
        let qn ← ObjPath.name q
        pure (strOf q.data, q.len, strOf qn)
      | none => pure ("none", 0, "~")
    let acc ← (splitDot s).foldlM (fun acc seg => ObjPath.appended acc seg) ObjPath.root
    pure s!"len={p.len} name={strOf nm} pstr={strOf ps} par={pars} plen={plen} pname={pname} eqapp={if acc = p then 1 else 0}"
  match r with
  | .ok s => s
  | .error _ => "panic"

def pathSpec (segs : List Bytes) : String :=
  let init := segs.dropLast
  let par := if segs.isEmpty then "none" else strOf (render init)
  s!"len={segs.length} name={strOf (segs.getLast?.getD [])} pstr={strOf (render init)} par={par} plen={init.length} pname={strOf (init.getLast?.getD [])} eqapp=1"

/-- model answer for `app <base> <seg>` -/
def appObs (base seg : Bytes) : String :=
  let b := ObjPath.fromStr base
  let r : Except ObjPath.Err String := do
    let p ← ObjPath.appended b seg
    let par ← ObjPath.parent p
    let nm ← ObjPath.name p
    let g ← ObjPath.appendedGate b seg
    let gn ← ObjPath.name g
    let pars := match par with
      | some q => strOf q.data
      | none => "none"
    let gate := g.isGate && g.data == p.data && g.len == p.len && gn == nm
    pure s!"str={strOf p.data} len={p.len} name={strOf nm} par={pars} pareq={if par = some b then 1 else 0} gate={if gate then 1 else 0}"
  match r with
  | .ok s => s
  | .error _ => "panic"

def appSpec (segs : List Bytes) (seg : Bytes) : String :=
  let par := if segs.isEmpty then "~" else strOf (render segs)
  s!"str={strOf (render (segs ++ [seg]))} len={segs.length + 1} name={strOf seg} par={par} pareq=1 gate=1"

/-- the case's name pool (same rule as the harness) -/
def namePool (body : List String) : List Bytes := Id.run do
  let mut pool : List Bytes := [bytesOf "zz"]
  for line in body do
    let (lhs, _) := splitArrow line
    match words lhs with
    | "node" :: p :: _ =>
      for seg in splitDot (untok p) do
        pool := insertSorted seg pool
    | "block" :: p :: rest =>
      for seg in splitDot (untok p) do
        pool := insertSorted seg pool
      for rel in ((kv rest "rels").getD "").splitOn "," do
        for seg in splitDot (untok rel) do
          pool := insertSorted seg pool
    | _ => pure ()
  return pool

/-- one declaration (a `sim.node` call or one call made by a `ModuleBlock`): compare the
    implementation's answer with the specification and the model, advance both -/
def declStep (st : St) (id : String) (i : Nat) (what : String) (path : Except ObjPath.Err ObjPath.Path)
    (segs : Option (List Bytes)) (stages wake fail : Nat) (ans : String) : Except String St := do
  -- specification
  let mut specAns : Option String := none
  let mut spec' := st.spec
  match st.spec, segs with
  | some D, some sg =>
    let (a, D') := PreSpec.declare D ⟨sg, stages⟩
    specAns := some (showAns a)
    spec' := some D'
  | some _, none => if ans == "ok" then spec' := none
  | none, _ => pure ()
  -- model
  let (b', err) := match path with
    | .ok p => ModTree.raw st.b p stages
    | .error e => (st.b, some (.path e))
  let mans := showErr err
  if let some sa := specAns then
    if sa != ans then
      throw s!"fail {id} op={i} kind=reject line=[{what}] spec={sa} model={mans} impl={ans}"
  if mans != ans then
    throw s!"fail {id} op={i} kind=diverge line=[{what}] spec={specAns.getD "-"} model={mans} impl={ans}"
  let mut st := st
  if err.isNone then
    let mid := match b'.mods.getLast? with
      | some m => m.id != st.b.nextId
      | none => false
    let key := match path with
      | .ok p => p.data
      | .error _ => []
    st := { st with fails := st.fails.push fail, sfails := (key, fail) :: st.sfails, wakes := st.wakes.push wake, mods := st.mods + 1, midins := st.midins + (if mid then 1 else 0),
                    swakes := (key, wake) :: st.swakes,
                    weird := st.weird + (if segs.isNone then 1 else 0) }
  else
    st := { st with rejects := st.rejects + 1 }
  return { st with b := b', spec := spec' }

/-- expected `run` log: `ModTree.runWith` (= `Runtime::run`) over the abstract event set of C01/C03;
    a scripted module schedules one self-message `wake*(stage+1)` ns ahead in every start stage and
    its message handler schedules nothing -/
def expectedLog (wake : Mod → Nat) (fail : Mod → Nat) (look : Mod → String) (byNode : Nat → Option Mod)
    (calls : List (Mod × Nat)) (ends : List Mod) (drops : List Mod) : List String × Nat := Id.run do
  let acts : Mod → Nat → List Rt.Act := fun m stage =>
    if wake m > 0 then [⟨false, wake m * (stage + 1), m.id⟩] else []
  let (s, log) := ModTree.runWith Rt.fesES [] (calls.length + 1) acts (Rt.build FES.init 0 .none) calls ends
  let mut out : Array String := #[]
  let mut nmsg := 0
  for c in log do
    match c with
    | .start m stage => out := out.push s!"S:{pathTok m.path}:{stage}:0:{look m}"
    | .kernel (.handled node t) =>
      nmsg := nmsg + 1
      match byNode node with
      | some m => out := out.push s!"M:{pathTok m.path}:{t}:{look m}"
      | none => out := out.push s!"M:?{node}:{t}"
    | .kernel .internal => out := out.push "internal"
    | .kernel _ => pure ()
    | .stop m => out := out.push s!"E:{pathTok m.path}:{s.now}:{look m}"
  -- the returned `Sim` is dropped: module states go in tear-down order
  for m in drops do
    out := out.push s!"D:{pathTok m.path}"
  -- the errors `run()` returns: those of every `at_sim_end` callback, merged in call order
  for (m, k) in ModTree.endErrors fail ends do
    out := out.push s!"X:{pathTok m.path}#{k}"
  return (out.toList, nmsg)

def firstDiff (a b : List String) : String := Id.run do
  let mut i := 0
  let mut xs := a
  let mut ys := b
  repeat
    match xs, ys with
    | [], [] => return "none"
    | x :: xs', y :: ys' =>
      if x != y then return s!"entry={i} expected={x} got={y}"
      xs := xs'; ys := ys'; i := i + 1
    | x :: _, [] => return s!"entry={i} expected={x} got=<end>"
    | [], y :: _ => return s!"entry={i} expected=<end> got={y}"
  return "none"

def runCase (c : Case) : String := Id.run do
  let h := words c.header
  let id := (h[1]?).getD "?"
  let pool := namePool c.body
  let mut st : St := {}
  let mut i := 0
  let mut ran := false
  for line in c.body do
    if line.startsWith "end" then continue
    i := i + 1
    let (lhs, rhs) := splitArrow line
    let ans := rhs.trimAscii.toString
    match words lhs with
    | "node" :: p :: rest =>
      if ran then
        if ans != "late" then return s!"fail {id} op={i} kind=diverge line=[{lhs}] model=late impl={ans}"
        continue
      let stages := (kvNat rest "s").getD 1
      let wake := (kvNat rest "w").getD 0
      let fail := (kvNat rest "f").getD 0
      let pb := untok p
      match declStep st id i lhs (.ok (ObjPath.fromStr pb)) (wfSegs pb) stages wake fail ans with
      | .ok st' => st := st'
      | .error msg => return msg
    | "block" :: p :: rest =>
      if ran then
        if ans != "late" then return s!"fail {id} op={i} kind=diverge line=[{lhs}] model=late impl={ans}"
        continue
      let stages := (kvNat rest "s").getD 1
      let rels := (((kv rest "rels").getD "").splitOn ",").map untok
      let pb := untok p
      let scope := ObjPath.fromStr pb
      -- `SimBuilderScoped::root`, then `SimBuilderScoped::node(rel)`: the relative path is appended
      -- to the scope component by component
      let calls : List (String × Except ObjPath.Err ObjPath.Path × Option (List Bytes)) :=
        (s!"block {p}: root", .ok scope, wfSegs pb) ::
        rels.map (fun rel =>
          let relp := ObjPath.fromStr rel
          let path := (splitDot relp.data).foldlM (fun acc seg => ObjPath.appended acc seg) scope
          let segs := match wfSegs pb, wfSegs rel with
            | some a, some b => some (a ++ b)
            | _, _ => none
          (s!"block {p}: node {strOf rel}", path, segs))
      let answers := ans.splitOn ","
      if answers.length != calls.length then
        return s!"fail {id} op={i} kind=diverge line=[{lhs}] model={calls.length}-answers impl={ans}"
      for ((what, path, segs), a) in calls.zip answers do
        match declStep st id i what path segs stages 0 0 a with
        | .ok st' => st := st'
        | .error msg => return msg
    | ["nodes"] =>
      if ran then
        if ans != "late" then return s!"fail {id} op={i} kind=diverge line=[{lhs}] model=late impl={ans}"
        continue
      let fmt (xs : List String) := if xs.isEmpty then "-" else joinWith "," xs
      let mans := fmt (st.b.mods.map (fun m => pathTok m.path))
      if let some D := st.spec then
        let sans := fmt ((PreSpec.preorder D).map (fun d => strOf (render d.segs)))
        if sans != ans then
          return s!"fail {id} op={i} kind=reject line=[{lhs}] spec={sans} model={mans} impl={ans}"
      if mans != ans then
        return s!"fail {id} op={i} kind=diverge line=[{lhs}] model={mans} impl={ans}"
    | ["run"] =>
      if ran then
        if ans != "res=none" then return s!"fail {id} op={i} kind=diverge line=[{lhs}] model=res=none impl={ans}"
        continue
      ran := true
      let toks := words ans
      let res := toks.head?.getD ""
      let got := toks.drop 1
      let resOf (ok : Bool) : String := if ok then "res=ok" else "res=err"
      -- specification: stage-major over the declared pre-order, lookups from the declared tree
      if let some D := st.spec then
        let toMod (d : SDecl) : Mod := ⟨D.idxOf d, ⟨render d.segs, 0, d.segs.length, false⟩, d.stages, none⟩
        let swakes := st.swakes
        let sfails := st.sfails
        let failOfS (m : Mod) : Nat := ((sfails.find? (fun e => e.1 == m.path.data)).map (·.2)).getD 0
        let wakeOf (m : Mod) : Nat := ((swakes.find? (fun e => e.1 == m.path.data)).map (·.2)).getD 0
        let segsOf (m : Mod) : List Bytes := (wfSegs m.path.data).getD []
        let nameOf (m : Mod) : String := strOf ((segsOf m).getLast?.getD [])
        let parentOf (m : Mod) : String :=
          match PreSpec.par (segsOf m) with
          | some q => strOf (render q)
          | none => "-"
        let kidsOf (m : Mod) : String :=
          let ks := pool.filterMap (fun n =>
            if (PreSpec.kids D (segsOf m)).any (fun d => d.segs == segsOf m ++ [n]) then some s!"{strOf n}>{strOf (render (segsOf m ++ [n]))}" else none)
          if ks.isEmpty then "-" else joinWith "," ks
        let calls := (PreSpec.startSpec D).map (fun c => (toMod c.1, c.2))
        let ends := (PreSpec.endSpec D).map toMod
        let (exp, _) := expectedLog wakeOf failOfS
          (fun m => s!"{m.path.len}:{nameOf m}:{parentOf m}:{kidsOf m}")
          (fun n => D[n]?.map toMod) calls ends ((PreSpec.preorder D).map toMod)
        let sres := resOf (ModTree.endOk failOfS ends)
        if sres != res then
          return s!"fail {id} op={i} kind=reject line=[run] clause=run-result spec={sres} impl={res}"
        if exp != got then
          return s!"fail {id} op={i} kind=reject line=[run] clause=callback-log {firstDiff exp got}"
      -- model
      let b := st.b
      let wakes := st.wakes
      let fails := st.fails
      let failOf (m : Mod) : Nat := fails[m.id]?.getD 0
      let wakeOf (m : Mod) : Nat := wakes[m.id]?.getD 0
      let nameOf (m : Mod) : String :=
        match ObjPath.name m.path with
        | .ok n => strOf n
        | .error _ => "!"
      let parentOf (m : Mod) : String :=
        match lookupParent b m with
        | some q => pathTok q.path
        | none => "-"
      let kidsOf (m : Mod) : String :=
        let ks := pool.filterMap (fun n => (lookupChild b m n).map (fun c => s!"{strOf n}>{pathTok c.path}"))
        if ks.isEmpty then "-" else joinWith "," ks
      let (exp, nmsg) := expectedLog wakeOf failOf
        (fun m => s!"{m.path.len}:{nameOf m}:{parentOf m}:{kidsOf m}")
        (byId b) (startCalls b.mods) (endCalls b.mods) ((teardown b).filterMap (byId b))
      let mres := resOf (ModTree.endOk failOf (endCalls b.mods))
      if mres != res then
        return s!"fail {id} op={i} kind=diverge line=[run] clause=run-result model={mres} impl={res}"
      if exp != got then
        return s!"fail {id} op={i} kind=diverge line=[run] clause=callback-log {firstDiff exp got}"
      st := { st with msgs := nmsg, starts := (startCalls b.mods).length,
                      errs := (ModTree.endErrors failOf (endCalls b.mods)).length }
    | ["path", s] =>
      st := { st with pathops := st.pathops + 1 }
      let sb := untok s
      if let some segs := wfSegs sb then
        let sa := pathSpec segs
        if sa != ans then return s!"fail {id} op={i} kind=reject line=[{lhs}] spec=[{sa}] impl=[{ans}]"
      let ma := pathObs sb
      if ma != ans then return s!"fail {id} op={i} kind=diverge line=[{lhs}] model=[{ma}] impl=[{ans}]"
    | ["app", b, s] =>
      st := { st with pathops := st.pathops + 1 }
      let bb := untok b
      let sb := untok s
      match wfSegs bb, wfSegs sb with
      | some segs, some [seg] =>
        let sa := appSpec segs seg
        if sa != ans then return s!"fail {id} op={i} kind=reject line=[{lhs}] spec=[{sa}] impl=[{ans}]"
      | _, _ => pure ()
      let ma := appObs bb sb
      if ma != ans then return s!"fail {id} op={i} kind=diverge line=[{lhs}] model=[{ma}] impl=[{ans}]"
    | _ => return s!"fail {id} op={i} kind=badline detail={line}"
  let maxSt := maxStage st.b.mods
  let nt := st.midins > 0 && maxSt ≥ 2 && st.mods ≥ 4 && ran && st.spec.isSome
  let maxDepth := st.b.mods.foldl (fun a m => max a m.path.len) 0
  return s!"ok {id} nt={if nt then 1 else 0} deep={if maxDepth ≥ 6 then 1 else 0} ops={i} mods={st.mods} midins={st.midins} rejects={st.rejects} starts={st.starts} msgs={st.msgs} errs={st.errs} pathops={st.pathops} weird={st.weird} indomain={if st.spec.isSome then 1 else 0}"

def main (stdin : IO.FS.Stream) : IO Unit := do
  let cases ← readCases stdin
  for c in cases do
    IO.println (runCase c)

end Driver.C12

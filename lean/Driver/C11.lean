/- C11 shares the runtime-session driver of C02 -/
import Driver.C02
namespace Driver.C11
def main (stdin : IO.FS.Stream) : IO Unit := Driver.C02.main "c11" stdin
end Driver.C11

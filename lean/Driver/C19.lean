/-
Driver for C19: replays a transcript (module/gate/connect build lines, then topology queries)
through the topology model `Topo.*` (Model/Topo.lean, work-lists popped from the front = the
repaired code) over the gate model, and checks every answer against the abstract module graph
`Graph.*` (Spec/Graph.lean) derived from the path specification.
-/
import Desverif.Model.Topo
import Desverif.Spec.Graph
import Driver.Common
namespace Driver.C19
open Driver Gate

def ident (pre : Char) (s : String) : Option Nat :=
  match s.toList with
  | c :: rest => if c = pre then (String.ofList rest).toNat? else none
  | [] => none

def listOr (e : String) (sep : String) (l : List String) : String :=
  if l.isEmpty then e else sep.intercalate l

structure St where
  n : Nat
  net : Net := Net.empty
  sp : Paths.State
  tree : List Topo.Ent := []            -- ModuleTree order
  owner : List (Nat × Nat) := []        -- gate ↦ module, creation order

def St.mods (st : St) : List Nat := st.tree.map (·.id)

def St.ownerOf (st : St) (g : Nat) : Nat := ((st.owner.find? (·.1 == g)).map (·.2)).getD 0
def St.gatesOf (st : St) (m : Nat) : List Nat := (st.owner.filter (·.2 == m)).map (·.1)

def St.world (st : St) : Topo.World :=
  { net := st.net, ngates := st.n, mods := st.mods, gates := st.gatesOf, owner := st.ownerOf }

def St.graph (st : St) : Graph.G := Graph.ofPaths st.sp st.mods st.gatesOf st.ownerOf

def b01 (b : Bool) : String := if b then "1" else "0"

def showFull (t : Topo.T) (fe : Topo.FullEdge) : String :=
  s!"m{t.nodes.getD fe.src 0}:g{fe.e.start}>m{t.nodes.getD fe.e.dst 999999}:g{fe.e.stop}"

def showSpecEdge (e : Graph.Edge) : String := s!"m{e.src}:g{e.start}>m{e.dst}:g{e.stop}"

def describeModel (t : Topo.T) : String :=
  if ¬ t.WF then "ill-formed" else
  s!"nodes={listOr "none" "," (t.nodes.map fun m => s!"m{m}")} edges={listOr "none" ";" ((Topo.allEdges t).map (showFull t))} conn={b01 (Topo.connected t)} bidi={b01 (Topo.bidirectional t)}"

def describeSpec (g : Graph.G) : String :=
  s!"nodes={listOr "none" "," (g.mods.map fun m => s!"m{m}")} edges={listOr "none" ";" (g.edges.map showSpecEdge)} conn={b01 (Graph.connected g)} bidi={b01 (Graph.bidirectional g)}"

/-- parse `nodes=… edges=… conn=… bidi=…` into (sorted nodes, sorted edges, conn, bidi) -/
def canon (s : String) : String :=
  let toks := words s
  let nodes := ((kv toks "nodes").getD "none").splitOn ","
  let edges := (((toks.find? (·.startsWith "edges=")).getD "edges=none").drop 6).toString.splitOn ";"
  let srt := fun (l : List String) => (l.toArray.qsort (· < ·)).toList
  s!"nodes={",".intercalate (srt nodes)} edges={";".intercalate (srt edges)} conn={(kv toks "conn").getD "?"} bidi={(kv toks "bidi").getD "?"}"

def parseMods (s : String) : List Nat := if s = "none" then [] else (s.splitOn ",").filterMap (ident 'm')

/-- model answer of `dijkstra` -/
def dijkstraModel (t : Topo.T) (src : Nat) : String :=
  if ¬ t.WF then "ill-formed" else
  match Topo.dijkstra t .front src with
  | none => "panic"
  | some l =>
    let l := (l.toArray.qsort (fun a b => a.1 < b.1)).toList
    listOr "none" ";" (l.map fun p => s!"m{p.1}={showFull t p.2}")

/-- spec acceptance of a `dijkstra` answer on graph `g` from `src`:
    exactly the reachable modules other than `src` have an entry; each entry is an edge leaving `src`
    that starts a minimum-hop path to the target -/
def dijkstraAccept (g : Graph.G) (src : Nat) (ans : String) : Option String := Id.run do
  let entries := if ans = "none" then [] else ans.splitOn ";"
  let mut seen : List Nat := []
  for en in entries do
    match en.splitOn "=" with
    | [tgt, edge] =>
      match ident 'm' tgt, edge.splitOn ">" with
      | some t, [fromS, toS] =>
        match (fromS.splitOn ":"), (toS.splitOn ":") with
        | [fm, fg], [tm, tg] =>
          match ident 'm' fm, ident 'g' fg, ident 'm' tm, ident 'g' tg with
          | some fm, some fg, some tm, some tg =>
            seen := t :: seen
            if !(g.edges.contains ⟨fm, fg, tm, tg⟩) then return some s!"entry-m{t}-is-not-an-edge"
            if fm != src then return some s!"entry-m{t}-does-not-leave-the-source"
            match Graph.dist g src t, Graph.dist g tm t with
            | some d, some d' => if d != d' + 1 then return some s!"entry-m{t}-not-on-a-min-hop-path-dist={d}-via={d' + 1}"
            | _, _ => return some s!"entry-m{t}-target-unreachable"
          | _, _, _, _ => return some "unparsable"
        | _, _ => return some "unparsable"
      | _, _ => return some "unparsable"
    | _ => return some "unparsable"
  for t in Graph.reachable g src do
    if t != src && !seen.contains t then return some s!"reachable-m{t}-has-no-entry"
  return none

/-- scripted direction-dependent predicate of `filter_edges`, on (from module, to module, start gate) -/
inductive Rule
  | lt | gt | succ (n : Nat) | starts (l : List Nat)

def parseRule (r : String) : Option Rule :=
  if r = "lt" then some .lt
  else if r = "gt" then some .gt
  else match r.splitOn ":" with
    | ["succ", n] => (n.toNat?).bind fun n => if n > 0 then some (.succ n) else none
    | ["starts", l] => some (.starts (if l = "none" then [] else (l.splitOn ",").filterMap (ident 'g')))
    | _ => none

def Rule.keeps (r : Rule) (from_ to start : Nat) : Bool :=
  match r with
  | .lt => from_ < to
  | .gt => from_ > to
  | .succ n => to == (from_ + 1) % n
  | .starts l => l.contains start

/-- the filtered model view and the filtered abstract graph; `none`s: view root unknown / fuel -/
def filteredViews (st : St) (view : String) (rule : Rule) : Option (Topo.T × Graph.G) :=
  let g := st.graph
  let base : Option (Topo.T × Graph.G) :=
    if view = "topo" then some (Topo.current st.world, g)
    else match (view.splitOn ":") with
      | ["sp", r] =>
        match ident 'm' r with
        | some r =>
          let reach := Graph.reachable g r
          (Topo.spanned st.world .front r).map fun t => (t, Graph.induced g (fun x => reach.contains x))
        | none => none
      | _ => none
  base.map fun (t, g) =>
    (Topo.filterEdges t (fun fe => rule.keeps (t.nodes.getD fe.src 0) (t.nodes.getD fe.e.dst 0) fe.e.start),
     Graph.filterEdges g (fun e => rule.keeps e.src e.dst e.start))

structure Stats where
  queries : Nat := 0
  spanned : Nat := 0
  dijkstra : Nat := 0
  filters : Nat := 0
  maxnodes : Nat := 0
  maxedges : Nat := 0
  frontier : Nat := 0      -- spanned views whose root has >= 2 distinct neighbours
  far : Nat := 0           -- dijkstra answers with a target at distance >= 2
  fviews : Nat := 0        -- filter_edges views queried
  asym : Nat := 0          -- … that are not bidirectional (connected was queried on them)
  asymconn : Nat := 0      -- … not bidirectional and yet connected
  root0 : Nat := 0         -- … not connected although node 0 reaches every node
  runops : Nat := 0        -- ops executed by modules while the simulation runs
  extractions : Nat := 0   -- global views extracted (build time and run time)
  changed : Nat := 0       -- … that differ from the previous extraction of the same simulation
  unsorted : Nat := 0      -- … with edges, whose node order (ModuleTree order) is not the creation order
  lastView : String := ""

def maxGate (body : List String) : Nat := Id.run do
  let mut n := 0
  for line in body do
    match words (splitArrow line).1 with
    | "gate" :: g :: _ => if let some j := ident 'g' g then n := max n (j + 1)
    | "rgate" :: g :: _ => if let some j := ident 'g' g then n := max n (j + 1)
    | _ => pure ()
  return n

def runCase (c : Case) : String := Id.run do
  let h := words c.header
  let id := (h[1]?).getD "?"
  let n := maxGate c.body
  let mut st : St := { n := n, sp := Paths.init n }
  let mut s : Stats := {}
  let mut i := 0
  for line in c.body do
    if line.startsWith "end" then
      if line != "end" then return s!"fail {id} op={i} kind=reject clause=drop-panic impl=[{line}]"
      continue
    i := i + 1
    let (lhs, rhs) := splitArrow line
    -- run-time ops are the build-time ops executed by module `by` at time `at`; the transcript lists them in time order
    let l0 := words lhs
    let isRun := match l0.head? with
      | some w => w == "rtopo" || w == "rspanned" || w == "rgate" || w == "rconnect"
      | none => false
    let l := if !isRun then l0 else
      let core := l0.filter fun t => !(t.startsWith "at=") && !(t.startsWith "by=")
      match core with
      | "rtopo" :: _ => ["topo"]
      | "rspanned" :: m :: _ => ["spanned", m]
      | "rgate" :: g :: _ => ["gate", g, s!"mod={(kv l0 "by").getD "?"}"]
      | "rconnect" :: a :: b :: _ => ["rconnect", a, b]
      | other => other
    if isRun then s := { s with runops := s.runops + 1 }
    let impl := rhs.trimAscii.toString
    let failR := fun (spec model : String) => s!"fail {id} op={i} kind=reject line=[{lhs}] spec=[{spec}] model=[{model}] impl=[{impl}]"
    let failD := fun (spec model : String) => s!"fail {id} op={i} kind=diverge line=[{lhs}] spec=[{spec}] model=[{model}] impl=[{impl}]"
    match l with
    | "mod" :: m :: rest =>
      match ident 'm' m with
      | some m =>
        match Topo.treeAdd st.tree m ((kv rest "parent").bind (ident 'm')) with
        | some tree => st := { st with tree := tree }
        | none => return s!"fail {id} op={i} kind=diverge line=[{lhs}] detail=parent-missing-in-model"
      | none => return s!"fail {id} op={i} kind=badline detail=[{line}]"
    | "gate" :: g :: rest =>
      match ident 'g' g, (kv rest "mod").bind (ident 'm') with
      | some g, some m => st := { st with owner := st.owner ++ [(g, m)] }
      | _, _ => return s!"fail {id} op={i} kind=badline detail=[{line}]"
    | ["connect", a, b] =>
      match ident 'g' a, ident 'g' b with
      | some a, some b =>
        let (exp, sp') := Paths.connect st.sp a b
        let specAns := match exp with
          | .noop | .linked => "ok"
          | _ => "panic"
        let (modelAns, net') := match connect st.net a b none with
          | .ok net' => ("ok", net')
          | .error _ => ("panic", st.net)
        if impl != specAns then return failR specAns modelAns
        if impl != modelAns then return failD specAns modelAns
        st := { st with net := net', sp := sp' }
      | _, _ => return s!"fail {id} op={i} kind=badline detail=[{line}]"
    | ["rconnect", a, b] =>
      match ident 'g' a, ident 'g' b with
      | some a, some b =>
        -- the harness does not call `connect` on a full gate (it would panic inside the module)
        let declared := fun (g : Nat) => st.owner.any (·.1 == g)
        let expect :=
          if !declared a || !declared b then "nogate"   -- (a script whose rgate line was deleted)
          else if a == b || (st.net a).len ≥ 2 || (st.net b).len ≥ 2 then "skipped" else "ok"
        if impl != expect then return failR expect expect
        if expect == "ok" then
          let (_, sp') := Paths.connect st.sp a b
          match connect st.net a b none with
          | .ok net' => st := { st with net := net', sp := sp' }
          | .error _ => return failD "ok" "model-connect-fails"
      | _, _ => return s!"fail {id} op={i} kind=badline detail=[{line}]"
    | ["topo"] =>
      let t := Topo.current st.world
      let g := st.graph
      s := { s with queries := s.queries + 1, maxnodes := max s.maxnodes g.mods.length, maxedges := max s.maxedges g.edges.length }
      let sa := describeSpec g
      let ma := describeModel t
      s := { s with extractions := s.extractions + 1 }
      if s.lastView != "" && s.lastView != ma then s := { s with changed := s.changed + 1 }
      if !g.edges.isEmpty && g.mods != (g.mods.toArray.qsort (· < ·)).toList then s := { s with unsorted := s.unsorted + 1 }
      s := { s with lastView := ma }
      if impl != sa then return failR sa ma
      if impl != ma then return failD sa ma
    | ["edgesfor", m] =>
      match ident 'm' m with
      | some m =>
        let t := Topo.current st.world
        let g := st.graph
        let sa := listOr "none" ";" ((g.edges.filter (·.src == m)).map showSpecEdge)
        let ma := listOr "none" ";" ((Topo.edgesFor t m).map (showFull t))
        s := { s with queries := s.queries + 1 }
        if impl != sa then return failR sa ma
        if impl != ma then return failD sa ma
      | none => return s!"fail {id} op={i} kind=badline detail=[{line}]"
    | ["spanned", m] =>
      match ident 'm' m with
      | some m =>
        let g := st.graph
        let reach := Graph.reachable g m
        let sub := Graph.induced g (fun x => reach.contains x)
        let sa := canon (describeSpec sub)
        let ma := match Topo.spanned st.world .front m with
          | some t => describeModel t
          | none => "out-of-fuel"
        s := { s with queries := s.queries + 1, spanned := s.spanned + 1 }
        if ((Graph.succs g m).eraseDups.filter (· != m)).length ≥ 2 then s := { s with frontier := s.frontier + 1 }
        if impl == "panic" || canon impl != sa then return failR sa ma
        if impl != ma then return failD sa ma
      | none => return s!"fail {id} op={i} kind=badline detail=[{line}]"
    | ["dijkstra", m] =>
      match ident 'm' m with
      | some m =>
        let g := st.graph
        let ma := dijkstraModel (Topo.current st.world) m
        s := { s with queries := s.queries + 1, dijkstra := s.dijkstra + 1 }
        if (g.mods.any fun t => match Graph.dist g m t with | some d => d ≥ 2 | none => false) then s := { s with far := s.far + 1 }
        match (if impl == "panic" then some "panicked" else dijkstraAccept g m impl) with
        | some why => return failR why ma
        | none => pure ()
        if impl != ma then return failD "accepted" ma
      | none => return s!"fail {id} op={i} kind=badline detail=[{line}]"
    | ["sdijkstra", r, m] =>
      match ident 'm' r, ident 'm' m with
      | some r, some m =>
        let g := st.graph
        let reach := Graph.reachable g r
        let sub := Graph.induced g (fun x => reach.contains x)
        let ma := match Topo.spanned st.world .front r with
          | some t => dijkstraModel t m
          | none => "out-of-fuel"
        s := { s with queries := s.queries + 1, dijkstra := s.dijkstra + 1 }
        -- the source may lie outside the spanned view: "unknown node" panic
        if !reach.contains m then
          if impl != "panic" then return failR "panic-unknown-node" ma
        else
          match (if impl == "panic" then some "panicked" else dijkstraAccept sub m impl) with
          | some why => return failR why ma
          | none => pure ()
        if impl != ma then return failD "accepted" ma
      | _, _ => return s!"fail {id} op={i} kind=badline detail=[{line}]"
    | ["fedges", view, rule] =>
      match parseRule rule with
      | none => return s!"fail {id} op={i} kind=badline detail=[{line}]"
      | some rule =>
        match filteredViews st view rule with
        | none => return s!"fail {id} op={i} kind=badline detail=[{line}]"
        | some (t, g) =>
          let sa := describeSpec g
          let ma := describeModel t
          s := { s with queries := s.queries + 1, fviews := s.fviews + 1 }
          if !Graph.bidirectional g then
            s := { s with asym := s.asym + 1 }
            if Graph.connected g then s := { s with asymconn := s.asymconn + 1 }
          match t.nodes.head? with
          | some n0 =>
            if !Graph.connected g && g.mods.all (fun x => (Graph.reachable g n0).contains x) then
              s := { s with root0 := s.root0 + 1 }
          | none => pure ()
          if view = "topo" then
            if impl != sa then return failR sa ma
          else
            if impl == "panic" || canon impl != canon sa then return failR (canon sa) ma
          if impl != ma then return failD sa ma
    | ["fdijkstra", view, rule, m] =>
      match parseRule rule, ident 'm' m with
      | some rule, some m =>
        match filteredViews st view rule with
        | none => return s!"fail {id} op={i} kind=badline detail=[{line}]"
        | some (t, g) =>
          let ma := dijkstraModel t m
          s := { s with queries := s.queries + 1, dijkstra := s.dijkstra + 1 }
          if !g.mods.contains m then
            if impl != "panic" then return failR "panic-unknown-node" ma
          else
            match (if impl == "panic" then some "panicked" else dijkstraAccept g m impl) with
            | some why => return failR why ma
            | none => pure ()
          if impl != ma then return failD "accepted" ma
      | _, _ => return s!"fail {id} op={i} kind=badline detail=[{line}]"
    | ["fedgesfor", view, rule, m] =>
      match parseRule rule, ident 'm' m with
      | some rule, some m =>
        match filteredViews st view rule with
        | none => return s!"fail {id} op={i} kind=badline detail=[{line}]"
        | some (t, g) =>
          let sa := listOr "none" ";" ((g.edges.filter (·.src == m)).map showSpecEdge)
          let ma := listOr "none" ";" ((Topo.edgesFor t m).map (showFull t))
          s := { s with queries := s.queries + 1 }
          if impl != sa then return failR sa ma
          if impl != ma then return failD sa ma
      | _, _ => return s!"fail {id} op={i} kind=badline detail=[{line}]"
    | ["filter", keep] =>
      let keep := parseMods keep
      let g := Graph.induced st.graph (fun x => keep.contains x)
      let t := Topo.filterNodes (Topo.current st.world) (fun x => keep.contains x)
      let sa := describeSpec g
      let ma := describeModel t
      s := { s with queries := s.queries + 1, filters := s.filters + 1 }
      if impl != sa then return failR sa ma
      if impl != ma then return failD sa ma
    | _ => return s!"fail {id} op={i} kind=badline detail=[{line}]"
  -- non-trivial: >= 3 modules, >= 4 edges, a spanned view with >= 2 frontier nodes, a dijkstra with a far target
  -- … and >= 1 edge-filtered view that is not bidirectional (connected / bidirectional were queried on it)
  -- … and, when the global view was extracted more than once, >= 1 extraction that differs from the one before
  let nt := s.maxnodes ≥ 3 && s.maxedges ≥ 4 && s.frontier ≥ 1 && s.far ≥ 1 && s.asym ≥ 1
    && (s.extractions ≤ 1 || s.changed ≥ 1)
  return s!"ok {id} nt={if nt then 1 else 0} ops={i} queries={s.queries} spanned={s.spanned} dijkstra={s.dijkstra} filters={s.filters} frontier={s.frontier} far={s.far} nodes={s.maxnodes} edges={s.maxedges} fviews={s.fviews} asym={s.asym} asymconn={s.asymconn} root0={s.root0} runops={s.runops} extractions={s.extractions} changed={s.changed} unsorted={s.unsorted}"

def main (stdin : IO.FS.Stream) : IO Unit := do
  let cases ← readCases stdin
  for c in cases do
    IO.println (runCase c)

end Driver.C19

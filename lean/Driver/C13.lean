/-
Driver for C13: same script language, kernel model (`Net.run`) and checks as Driver/C09.lean; in
addition the trace and the result of the SECOND simulation run in the same process (`obs2`,
`res2`, `glob2`) are compared with the model (the simulator's globals survived the panics).
-/
import Driver.C09
namespace Driver.C13
open Driver

def main (stdin : IO.FS.Stream) : IO Unit := do
  let cases ← readCases stdin
  for c in cases do
    IO.println (Driver.C09.runCase true c)

end Driver.C13

/-
Driver for C08: replays a transcript of gate / connect / walk / send operations through the gate
model (`Gate.connect`, `Gate.pathIter`, `Gate.send`, … of Model/Gate.lean) and the abstract path
specification (`Paths.connect`, `Paths.walkFrom` of Spec/Paths.lean) — the definitions the theorems
of Props/C08.lean are about.
-/
import Desverif.Model.Gate
import Desverif.Spec.Paths
import Desverif.Spec.ChainSrv
import Driver.Common
namespace Driver.C08
open Driver Gate

/-- `g12` → 12, `m3` → 3 -/
def ident (pre : Char) (s : String) : Option Nat :=
  match s.toList with
  | c :: rest => if c = pre then (String.ofList rest).toNat? else none
  | [] => none

def gname (g : Nat) : String := s!"g{g}"
def optG : Option Nat → String
  | some g => gname g
  | none => "none"
def optCh : Option Nat → String
  | some d => toString d
  | none => "none"

def listOr (e : String) (l : List String) : String := if l.isEmpty then e else ",".intercalate l

/-- a declared link: gates, delay of the idle channel for the test message, latency, bitrate -/
structure Link where
  a : Nat
  b : Nat
  delay : Option Nat
  lat : Nat := 0
  br : Nat := 0
  cap : Option Nat := none      -- queue capacity in messages (`q=<bytes>` / 64)
  jit : Nat := 0                -- jitter of the channel (ns)

structure St where
  n : Nat                                   -- gate ids are < n (fuel of the walks)
  net : Net := Net.empty                    -- wiring after the build phase / after the last processed run-time connect
  sp : Paths.State
  owner : List (Nat × Nat) := []            -- gate ↦ module
  down : List (Nat × Nat) := []             -- module ↦ time of its shutdown
  links : List Link := []                   -- every effective link (spec side)
  snaps : List (Nat × Net × Paths.State) := []   -- (time, wiring, paths) after each run-time connect, latest first

/-- the wiring at time `t` -/
def St.netAt (st : St) (build : Net) (t : Nat) : Net :=
  match st.snaps.find? (fun s => s.1 ≤ t) with
  | some s => s.2.1
  | none => build

def St.spAt (st : St) (build : Paths.State) (t : Nat) : Paths.State :=
  match st.snaps.find? (fun s => s.1 ≤ t) with
  | some s => s.2.2
  | none => build

def St.ownerOf (st : St) (g : Nat) : Nat := ((st.owner.find? (·.1 == g)).map (·.2)).getD 0

/-- module `m` is active at time `t` (it shuts down for good at its `down` time) -/
def St.active (st : St) (m t : Nat) : Bool :=
  match st.down.find? (·.1 == m) with
  | some (_, d) => t < d
  | none => true

def St.link? (st : St) (a b : Nat) : Option Link :=
  st.links.find? fun l => (l.a == a && l.b == b) || (l.a == b && l.b == a)

def St.linkChan (st : St) (a b : Nat) : Option Nat := ((st.link? a b).map (·.delay)).getD none

/-- the walk line the model predicts -/
def modelWalk (st : St) (g : Nat) : String :=
  let k := match kind st.net g with
    | .standalone => "standalone" | .endpoint => "endpoint" | .transit => "transit"
  let (path, prev) := match pathIter st.net st.n g with
    | none => ("none", "none")
    | some l =>
      (listOr "empty" (l.map fun (c : Conn) => s!"{gname c.peer}:{optCh c.chan}"),
       listOr "empty" (l.map fun (c : Conn) => optG (prevHop st.net c)))
  s!"kind={k} next={optG (nextGate st.net st.n g)} end={optG (pathEnd st.net st.n g)} path={path} prev={prev}"

/-- the walk line the specification predicts -/
def specWalk (st : St) (g : Nat) : String :=
  match Paths.walkFrom st.sp g with
  | none => "kind=transit next=none end=none path=none prev=none"
  | some rest =>
    let gates := g :: rest
    let pairs := gates.zip rest
    let k := if rest.isEmpty then "standalone" else "endpoint"
    s!"kind={k} next={optG rest.head?} end={optG rest.getLast?} path={listOr "empty" (pairs.map fun p => s!"{gname p.2}:{optCh (st.linkChan p.1 p.2)}")} prev={listOr "empty" (pairs.map fun p => gname p.1)}"

def mname (m : Nat) : String := s!"m{m}"

/-- what the harness line shows for a fate -/
def showFate : Fate → String
  | .handled m t last true sender => s!"n=1 rx={mname m} t={t} sender={mname sender} receiver={mname m} last={optG last}"
  | .handled .. => "n=0"
  | .dropped .. => "n=0"
  | .outOfFuel => "out-of-fuel"
  | .sendPanic => "skipped-transit"

/-- the owner of `g` runs its handler at `at_` (only if it is still active) and calls `send` / `send_in`;
    the chain is resolved when the message starts to move, with the wiring of each moment -/
def modelFate (st : St) (build : Net) (g at_ delay : Nat) : Option Fate :=
  if st.active (st.ownerOf g) at_ then
    some (sendIssued (st.netAt build) st.ownerOf st.active (st.ownerOf g) (st.n + 1) g at_ (at_ + delay))
  else none

def modelSend (st : St) (build : Net) (g at_ delay : Nat) : String :=
  match modelFate st build g at_ delay with
  | some f => showFate f
  | none => "n=0"

inductive SpecFate
  | transit | senderDown | dropped | unseen | ambiguous
  | delivered (rx : Nat) (t : Nat) (sender : Nat) (last : Nat)

/-- the specification: the send is refused if the gate is an inner gate when the call is made; from
    the send time on the message moves along the abstract path as it is at each moment (gate `i` at send
    time + the declared delays of the first `i` hops); it is dropped on the first gate before the last
    whose owner is inactive at that moment, and ignored if the far-end owner is inactive on arrival.
    `ambiguous`: the path set alone does not determine the direction (start gate became an inner gate). -/
def specGo (st : St) (buildSp : Paths.State) (g : Nat) : Nat → Nat → Option Nat → Nat → SpecFate
  | 0, _, _, _ => .ambiguous
  | fuel + 1, cur, prev, t =>
    match Paths.neighbours (st.spAt buildSp t) cur with
    | none => .ambiguous
    | some ns =>
      match ns.filter (fun x => some x != prev) with
      | [] => if st.active (st.ownerOf cur) t then .delivered (st.ownerOf cur) t (st.ownerOf g) cur else .unseen
      | [nxt] =>
        if !st.active (st.ownerOf cur) t then .dropped
        else specGo st buildSp g fuel nxt (some cur) (t + (st.linkChan cur nxt).getD 0)
      | _ => .ambiguous

def specFate (st : St) (buildSp : Paths.State) (g at_ delay : Nat) : SpecFate :=
  if !st.active (st.ownerOf g) at_ then .senderDown else
  match Paths.walkFrom (st.spAt buildSp at_) g with
  | none => .transit
  | some _ => specGo st buildSp g (st.n + 1) g none (at_ + delay)

def specSend (st : St) (buildSp : Paths.State) (g at_ delay : Nat) : Option String :=
  match specFate st buildSp g at_ delay with
  | .transit => some "skipped-transit"
  | .senderDown | .dropped | .unseen => some "n=0"
  | .ambiguous => none
  | .delivered rx t sender last => some s!"n=1 rx={mname rx} t={t} sender={mname sender} receiver={mname rx} last={gname last}"

/-- the gates the message visits according to the specification (for the statistics) -/
def specRoute (st : St) (buildSp : Paths.State) : Nat → Nat → Option Nat → Nat → List Nat
  | 0, _, _, _ => []
  | fuel + 1, cur, prev, t =>
    match Paths.neighbours (st.spAt buildSp t) cur with
    | some ns =>
      match ns.filter (fun x => some x != prev) with
      | [nxt] => cur :: specRoute st buildSp fuel nxt (some cur) (t + (st.linkChan cur nxt).getD 0)
      | _ => [cur]
    | none => [cur]

structure Stats where
  links : Nat := 0
  noops : Nat := 0
  panics : Nat := 0
  rings : Nat := 0
  walks : Nat := 0
  sends : Nat := 0
  maxhops : Nat := 0
  multihopSends : Nat := 0
  delayed : Nat := 0
  drops : Nat := 0        -- dropped on a gate whose owner was shut down (not the last gate)
  unseen : Nat := 0       -- arrived at a far-end owner that was shut down
  senderdown : Nat := 0   -- the sending module was shut down before its send
  late : Nat := 0         -- connect calls made at run time
  unwired : Nat := 0      -- delayed sends issued on an unconnected gate that was wired before the send time
  brsends : Nat := 0      -- messages that crossed a hop with a finite bitrate
  zerolat : Nat := 0      -- … with a finite bitrate and no latency
  brlinks : Nat := 0
  fwdlegs : Nat := 0      -- delivered legs of forwarded messages (second and later legs)
  restamped : Nat := 0    -- deliveries whose header held a different, stale receiver id before
  wantsfwd : Nat := 0     -- sends with forwarding legs or an explicit receiver id
  jittered : Nat := 0     -- messages that crossed a hop with jitter (arrival checked against the jitter window)
  bursts : Nat := 0       -- bursts (>= 2 messages back to back)
  queuedInner : Nat := 0  -- burst messages that had to wait for a channel on a hop entered at a transit gate
  qdropped : Nat := 0     -- burst messages dropped by a full queue

def maxGate (body : List String) : Nat := Id.run do
  let mut n := 0
  for line in body do
    match words (splitArrow line).1 with
    | "gate" :: g :: _ => if let some j := ident 'g' g then n := max n (j + 1)
    | _ => pure ()
  return n

/-- the hops of a route as FIFO servers -/
def St.hopsOf (st : St) (route : List Nat) : List ChainSrv.Hop :=
  (route.zip route.tail).map fun p =>
    match st.link? p.1 p.2 with
    | some l => match l.delay with
      | some d => { lat := l.lat, tx := d - l.lat, cap := l.cap }
      | none => { lat := 0, tx := 0, cap := none }
    | none => { lat := 0, tx := 0, cap := none }

/-- one answer segment per message of a burst that travels `route` (first gate `g`), all offered at `t0` -/
def burstAnswer (st : St) (g : Nat) (route : List Nat) (n t0 : Nat) : String :=
  let far := (route.getLast?).getD g
  let outs := ChainSrv.serveChain (st.hopsOf route) (List.replicate n (some t0))
  " ; ".intercalate (outs.map fun o => match o with
    | some t => s!"n=1 rx={mname (st.ownerOf far)} t={t} sender={mname (st.ownerOf g)} receiver={mname (st.ownerOf far)} last={gname far}"
    | none => "n=0")

/-- channel arguments of a (l)connect line and the transmission time the implementation reported:
    `(delay, lat, br)` or an error text -/
def chanOf (rest : List String) (implToks : List String) : Except String (Option Nat × Nat × Nat) :=
  match (kv rest "ch").bind String.toNat? with
  | none => .ok (none, 0, 0)
  | some lat =>
    let br := (kvNat rest "br").getD 0
    match kvNat implToks "tx" with
    | none => .ok (some lat, lat, br)        -- the call panicked / did not run: the channel is irrelevant
    | some tx =>
      -- cross-check: transmission time of the 64-byte test message = 512 bit / bitrate (rounded to ns)
      let bits := 512 * 1000000000
      if br = 0 then (if tx = 0 then .ok (some lat, lat, 0) else .error s!"tx={tx}-with-bitrate-0")
      else if tx * br ≤ bits + br ∧ bits ≤ tx * br + br then .ok (some (lat + tx), lat, br)
      else .error s!"tx={tx}-but-512bit/{br}bps"

def runCase (c : Case) : String := Id.run do
  let h := words c.header
  let id := (h[1]?).getD "?"
  let n := maxGate c.body
  let mut st : St := { n := n, sp := Paths.init n }
  let mut s : Stats := {}
  let mut i := 0
  let isSend := fun (l : String) => l.startsWith "send "
  let isLate := fun (l : String) => l.startsWith "lconnect "
  let lateAt := fun (l : String) => (kvNat (words (splitArrow l).1) "at").getD 0
  let lates := ((c.body.filter isLate).toArray.qsort (fun a b => lateAt a < lateAt b)).toList
  let mut build : Net := Net.empty
  let mut buildSp : Paths.State := st.sp
  let mut built := false
  -- build lines first, then the run-time connects in time order, then the sends
  for line in c.body.filter (fun l => !isSend l && !isLate l) ++ lates ++ c.body.filter isSend do
    if line.startsWith "end" then
      if line != "end" then return s!"fail {id} op={i} kind=reject clause=run-failed impl=[{line}]"
      if !built then
        build := st.net; buildSp := st.sp; built := true
      continue
    i := i + 1
    let (lhs, rhs) := splitArrow line
    let l := words lhs
    let impl := rhs.trimAscii.toString
    let implToks := words impl
    let implHead := (implToks.head?).getD ""
    match l with
    | "mod" :: m :: rest =>
      match ident 'm' m, kvNat rest "down" with
      | some m, some d => st := { st with down := (m, d) :: st.down }
      | _, _ => pure ()
    | "gate" :: g :: rest =>
      match ident 'g' g, (kv rest "mod").bind (ident 'm') with
      | some g, some m => st := { st with owner := (g, m) :: st.owner }
      | _, _ => return s!"fail {id} op={i} kind=badline detail=[{line}]"
    | "connect" :: a :: b :: rest =>
      match ident 'g' a, ident 'g' b with
      | some a, some b =>
        match chanOf rest implToks with
        | .error e => return s!"fail {id} op={i} kind=reject clause=transmission-time line=[{lhs}] detail={e}"
        | .ok (ch, lat, br) =>
        let (exp, sp') := Paths.connect st.sp a b
        let specAns := match exp with
          | .noop | .linked => "ok"
          | _ => "panic"
        let (modelAns, net', effective) := match connect st.net a b ch with
          | .ok net' => ("ok", net', !(st.net a).hasPeer b)
          | .error _ => ("panic", st.net, false)
        if implHead != specAns then
          return s!"fail {id} op={i} kind=reject line=[{lhs}] spec={specAns} model={modelAns} impl={impl}"
        if implHead != modelAns then
          return s!"fail {id} op={i} kind=diverge line=[{lhs}] spec={specAns} model={modelAns} impl={impl}"
        if effective != (exp == .linked) then
          return s!"fail {id} op={i} kind=diverge line=[{lhs}] detail=model-and-spec-disagree-on-linking spec={repr exp}"
        if exp == .linked then
          s := { s with links := s.links + 1 }
          if br > 0 then s := { s with brlinks := s.brlinks + 1 }
          if sp'.rings.length != st.sp.rings.length then s := { s with rings := s.rings + 1 }
          st := { st with links := { a := a, b := b, delay := ch, lat := lat, br := br, cap := (kvNat rest "q").map (· / 64), jit := (kvNat rest "jit").getD 0 } :: st.links }
        else if exp == .noop then s := { s with noops := s.noops + 1 }
        else s := { s with panics := s.panics + 1 }
        st := { st with net := net', sp := sp' }
      | _, _ => return s!"fail {id} op={i} kind=badline detail=[{line}]"
    | "lconnect" :: a :: b :: rest =>
      if !built then
        build := st.net; buildSp := st.sp; built := true
      match ident 'g' a, ident 'g' b, kvNat rest "at", (kv rest "by").bind (ident 'm') with
      | some a, some b, some at_, some by_ =>
        match chanOf rest implToks with
        | .error e => return s!"fail {id} op={i} kind=reject clause=transmission-time line=[{lhs}] detail={e}"
        | .ok (ch, lat, br) =>
        -- the module makes the call from a handler: only if it is still active; the harness does not call
        -- `connect` on a full gate (it would panic inside the module)
        let expect :=
          if !st.active by_ at_ then "notrun"
          else if a == b || (st.net a).len ≥ 2 || (st.net b).len ≥ 2 then "skipped"
          else "ok"
        if implHead != expect then
          return s!"fail {id} op={i} kind=reject line=[{lhs}] spec={expect} model={expect} impl={impl}"
        if expect == "ok" then
          let (exp, sp') := Paths.connect st.sp a b
          match connect st.net a b ch with
          | .ok net' =>
            let effective := !(st.net a).hasPeer b
            if effective != (exp == .linked) then
              return s!"fail {id} op={i} kind=diverge line=[{lhs}] detail=model-and-spec-disagree-on-linking spec={repr exp}"
            if exp == .linked then
              st := { st with links := { a := a, b := b, delay := ch, lat := lat, br := br } :: st.links }
              if br > 0 then s := { s with brlinks := s.brlinks + 1 }
            st := { st with net := net', sp := sp', snaps := (at_, net', sp') :: st.snaps }
            s := { s with late := s.late + 1 }
          | .error _ =>
            return s!"fail {id} op={i} kind=diverge line=[{lhs}] detail=model-connect-fails impl={impl}"
      | _, _, _, _ => return s!"fail {id} op={i} kind=badline detail=[{line}]"
    | ["walk", g] =>
      match ident 'g' g with
      | some g =>
        let sw := specWalk st g
        let mw := modelWalk st g
        s := { s with walks := s.walks + 1 }
        if impl != sw then
          return s!"fail {id} op={i} kind=reject line=[{lhs}] spec=[{sw}] model=[{mw}] impl=[{impl}]"
        if impl != mw then
          return s!"fail {id} op={i} kind=diverge line=[{lhs}] spec=[{sw}] model=[{mw}] impl=[{impl}]"
        match Paths.walkFrom st.sp g with
        | some rest => s := { s with maxhops := max s.maxhops rest.length }
        | none => pure ()
      | none => return s!"fail {id} op={i} kind=badline detail=[{line}]"
    | "send" :: _ :: rest =>
      if !built then
        build := st.net; buildSp := st.sp; built := true
      match (kv rest "gate").bind (ident 'g'), kvNat rest "at", kvNat rest "delay" with
      | some g0, some at0, some delay0 =>
        let rcv := (kv rest "rcv").bind (ident 'm')
        let snd := (kv rest "snd").bind (ident 'm')
        -- forwarding legs: (gate | back, delay)
        let legs : List (Option Nat × Nat) := match kv rest "fwd" with
          | none => []
          | some f => (f.splitOn ",").filterMap fun e =>
            match e.splitOn ":" with
            | [g, d] => d.toNat?.map fun d => (if g == "back" then none else ident 'g' g, d)
            | _ => none
        s := { s with sends := s.sends + 1 }
        let burst := (kvNat rest "burst").getD 1
        if burst ≥ 2 then
          -- a burst: the route from the model's walk resp. the abstract path, the timing from the FIFO servers
          s := { s with bursts := s.bursts + 1 }
          let t0 := at0 + delay0
          let (ms, ss) :=
            if !st.active (st.ownerOf g0) at0 then (" ; ".intercalate (List.replicate burst "n=0"), " ; ".intercalate (List.replicate burst "n=0"))
            else
              let m := if ((st.netAt build at0) g0).len ≤ 1 then
                  burstAnswer st g0 (gatesOf g0 (walk (st.netAt build t0) st.n g0 true)) burst t0
                else "skipped-transit"
              let sp := match Paths.walkFrom (st.spAt buildSp at0) g0 with
                | none => "skipped-transit"
                | some _ => burstAnswer st g0 (specRoute st buildSp (st.n + 1) g0 none t0) burst t0
              (m, sp)
          if impl != ss then
            return s!"fail {id} op={i} kind=reject line=[{lhs}] spec=[{ss}] model=[{ms}] impl=[{impl}]"
          if impl != ms then
            return s!"fail {id} op={i} kind=diverge line=[{lhs}] spec=[{ss}] model=[{ms}] impl=[{impl}]"
          -- statistics: who had to wait, and where
          let route := specRoute st buildSp (st.n + 1) g0 none t0
          if route.length ≥ 3 then s := { s with multihopSends := s.multihopSends + 1 }
          s := { s with maxhops := max s.maxhops (route.length - 1) }
          let hops := st.hopsOf route
          let mut arr : List (Option Nat) := List.replicate burst (some t0)
          let mut hi := 0
          for h in hops do
            let out := ChainSrv.serveHop h 0 [] arr
            let waited := ((arr.zip out).filter fun p => match p.1, p.2 with
              | some a, some o => o > a + h.tx + h.lat
              | _, _ => false).length
            if hi ≥ 1 then s := { s with queuedInner := s.queuedInner + waited }
            s := { s with qdropped := s.qdropped + ((arr.zip out).filter fun p => p.1.isSome && p.2.isNone).length }
            arr := out
            hi := hi + 1
          if hops.any (·.tx > 0) then s := { s with brsends := s.brsends + 1 }
          continue
        -- a route with jitter: the arrival time is only determined up to the sum of the jitters
        -- (window acceptance on the specification side; the model has no random samples and is not compared)
        if legs.isEmpty then
          let route := specRoute st buildSp (st.n + 1) g0 none (at0 + delay0)
          let jsum := (((route.zip route.tail).filterMap fun p => st.link? p.1 p.2).map (·.jit)).sum
          if jsum > 0 then
            match specFate st buildSp g0 at0 delay0 with
            | .delivered rx lo sender last =>
              let want := s!"n=1 rx={mname rx} t={lo}..<{lo + jsum} sender={mname sender} receiver={mname rx} last={gname last}"
              let it := words impl
              let okFields := it.head? == some "n=1" && kv it "rx" == some (mname rx) && kv it "sender" == some (mname sender)
                && kv it "receiver" == some (mname rx) && kv it "last" == some (gname last) && it.length == 6
              let okTime := match kvNat it "t" with
                | some t => lo ≤ t && t < lo + jsum
                | none => false
              if !(okFields && okTime) then
                return s!"fail {id} op={i} kind=reject line=[{lhs}] spec=[{want}] model=[not-compared-jitter] impl=[{impl}]"
              s := { s with jittered := s.jittered + 1 }
              if route.length ≥ 3 then s := { s with multihopSends := s.multihopSends + 1 }
              s := { s with maxhops := max s.maxhops (route.length - 1), brsends := s.brsends + 1 }
              continue
            | _ => pure ()
        if !legs.isEmpty || rcv.isSome then s := { s with wantsfwd := s.wantsfwd + 1 }
        -- model: every leg through `sendH`, the header handed from leg to leg
        let mut segsM : List String := []
        let mut segsS : List String := []
        let mut specKnown := true
        let mut g := g0
        let mut issue := at0
        let mut delay := delay0
        let mut hdr : Hdr := ⟨snd.getD 999999, rcv.getD 999999, none⟩
        let mut stale : Option Nat := rcv
        let mut rest' := legs
        let mut leg := 0
        let mut going := true
        -- the specification's view of the same legs
        let mut sg := g0
        let mut sissue := at0
        let mut sgoing := true
        for _ in [0:legs.length + 1] do
          if going then
            let sm := st.ownerOf g
            if leg == 0 && !st.active sm issue then
              segsM := segsM ++ ["n=0"]; going := false
            else
              match sendH (st.netAt build) st.ownerOf st.active sm (st.n + 1) g issue (issue + delay) hdr with
              | .handled m t h true =>
                segsM := segsM ++ [s!"n=1 rx={mname m} t={t} sender={mname h.sender} receiver={mname h.receiver} last={optG h.last}"]
                if leg > 0 then s := { s with fwdlegs := s.fwdlegs + 1 }
                match stale with
                | some old => if old != m then s := { s with restamped := s.restamped + 1 }
                | none => pure ()
                stale := some m
                match rest' with
                | [] => going := false
                | (gate, d) :: more =>
                  rest' := more
                  match (match gate with | some x => some x | none => h.last) with
                  | none => going := false
                  | some ng =>
                    if !(st.owner.any (·.1 == ng)) then
                      -- (a script whose gate line was deleted: the harness finds no such gate)
                      segsM := segsM ++ ["n=0"]; going := false
                    else if st.ownerOf ng != m then
                      segsM := segsM ++ ["wrong-owner"]; going := false
                    else
                      g := ng; issue := t; delay := d; hdr := h
              | .sendPanic => segsM := segsM ++ ["skipped-transit"]; going := false
              | .outOfFuel => segsM := segsM ++ ["out-of-fuel"]; going := false
              | _ => segsM := segsM ++ ["n=0"]; going := false
          if sgoing && specKnown then
            let d := if leg == 0 then delay0 else ((legs[leg - 1]?).map (·.2)).getD 0
            let sf := specFate st buildSp sg sissue d
            match sf with
            | .dropped => s := { s with drops := s.drops + 1 }
            | .unseen => s := { s with unseen := s.unseen + 1 }
            | .senderDown => s := { s with senderdown := s.senderdown + 1 }
            | _ => pure ()
            match sf with
            | .ambiguous => specKnown := false
            | .transit => segsS := segsS ++ ["skipped-transit"]; sgoing := false
            | .senderDown | .dropped | .unseen => segsS := segsS ++ ["n=0"]; sgoing := false
            | .delivered rx t sender last =>
              segsS := segsS ++ [s!"n=1 rx={mname rx} t={t} sender={mname sender} receiver={mname rx} last={gname last}"]
              match legs[leg]? with
              | none => sgoing := false
              | some (gate, _) =>
                let ng := gate.getD last
                if !(st.owner.any (·.1 == ng)) then
                  segsS := segsS ++ ["n=0"]; sgoing := false
                else if st.ownerOf ng != rx then
                  segsS := segsS ++ ["wrong-owner"]; sgoing := false
                else
                  sg := ng; sissue := t
          leg := leg + 1
        let ms := " | ".intercalate segsM
        let ss := " | ".intercalate segsS
        if specKnown then
          if impl != ss then
            return s!"fail {id} op={i} kind=reject line=[{lhs}] spec=[{ss}] model=[{ms}] impl=[{impl}]"
        if impl != ms then
          return s!"fail {id} op={i} kind=diverge line=[{lhs}] spec=[{if specKnown then ss else "undetermined"}] model=[{ms}] impl=[{impl}]"
        -- statistics of the first leg
        match specFate st buildSp g0 at0 delay0 with
        | .senderDown | .transit => pure ()
        | _ =>
          let route := specRoute st buildSp (st.n + 1) g0 none (at0 + delay0)
          if route.length ≥ 3 then s := { s with multihopSends := s.multihopSends + 1 }
          if delay0 > 0 then s := { s with delayed := s.delayed + 1 }
          s := { s with maxhops := max s.maxhops (route.length - 1) }
          let hops := (route.zip route.tail).filterMap fun p => st.link? p.1 p.2
          if hops.any (·.br > 0) then s := { s with brsends := s.brsends + 1 }
          if hops.any (fun l => l.br > 0 && l.lat == 0) then s := { s with zerolat := s.zerolat + 1 }
          if delay0 > 0 && Paths.neighbours (st.spAt buildSp at0) g0 == some [] && route.length ≥ 2 then
            s := { s with unwired := s.unwired + 1 }
      | _, _, _ => return s!"fail {id} op={i} kind=badline detail=[{line}]"
    | _ => return s!"fail {id} op={i} kind=badline detail=[{line}]"
  -- non-trivial: a chain of >= 3 hops was walked and a message crossed (or was dropped on) a chain of >= 2 hops;
  -- with shut-down modules additionally >= 1 message met an inactive owner (dropped in transit or ignored on arrival);
  -- with finite-bitrate links >= 1 message crossed one; with run-time connects >= 1 delayed send was issued on a gate
  -- that was still unconnected and got wired before the send time; with bursts >= 1 message that had to wait for a busy
  -- channel on a hop entered at a transit gate; with forwarded messages / explicit receiver ids
  -- (and >= 2 modules owning gates) >= 1 delivery of a message whose header held a different (stale) receiver id
  let nt := s.maxhops ≥ 3 && s.multihopSends ≥ 1 && s.links ≥ 3 && (st.down.isEmpty || s.drops + s.unseen ≥ 1)
    && (s.brlinks == 0 || s.brsends ≥ 1) && (s.late == 0 || s.unwired ≥ 1) && (s.bursts == 0 || s.queuedInner ≥ 1) && (s.wantsfwd == 0 || s.restamped ≥ 1 || (st.owner.map (·.2)).eraseDups.length ≤ 1)
  return s!"ok {id} nt={if nt then 1 else 0} ops={i} links={s.links} noops={s.noops} panics={s.panics} rings={s.rings} walks={s.walks} sends={s.sends} multihop={s.multihopSends} delayed={s.delayed} maxhops={s.maxhops} downmods={st.down.length} drops={s.drops} unseen={s.unseen} senderdown={s.senderdown} late={s.late} unwired={s.unwired} brlinks={s.brlinks} brsends={s.brsends} zerolat={s.zerolat} fwdlegs={s.fwdlegs} restamped={s.restamped} wantsfwd={s.wantsfwd} jittered={s.jittered} bursts={s.bursts} queuedinner={s.queuedInner} qdropped={s.qdropped}"

def main (stdin : IO.FS.Stream) : IO Unit := do
  let cases ← readCases stdin
  for c in cases do
    IO.println (runCase c)

end Driver.C08

/-
Driver for C08: replays a transcript of gate / connect / walk / send operations through the gate
model (`Gate.connect`, `Gate.pathIter`, `Gate.send`, … of Model/Gate.lean) and the abstract path
specification (`Paths.connect`, `Paths.walkFrom` of Spec/Paths.lean) — the definitions the theorems
of Props/C08.lean are about.
-/
import Desverif.Model.Gate
import Desverif.Spec.Paths
import Driver.Common
namespace Driver.C08
open Driver Gate

/-- `g12` → 12, `m3` → 3 -/
def ident (pre : Char) (s : String) : Option Nat :=
  match s.toList with
  | c :: rest => if c = pre then (String.ofList rest).toNat? else none
  | [] => none

def gname (g : Nat) : String := s!"g{g}"
def optG : Option Nat → String
  | some g => gname g
  | none => "none"
def optCh : Option Nat → String
  | some d => toString d
  | none => "none"

def listOr (e : String) (l : List String) : String := if l.isEmpty then e else ",".intercalate l

structure St where
  n : Nat                                   -- gate ids are < n (fuel of the walks)
  net : Net := Net.empty
  sp : Paths.State
  owner : List (Nat × Nat) := []            -- gate ↦ module
  down : List (Nat × Nat) := []             -- module ↦ time of its shutdown
  links : List (Nat × Nat × Option Nat) := []   -- declared channel of every effective link (spec side)

def St.ownerOf (st : St) (g : Nat) : Nat := ((st.owner.find? (·.1 == g)).map (·.2)).getD 0

/-- module `m` is active at time `t` (it shuts down for good at its `down` time) -/
def St.active (st : St) (m t : Nat) : Bool :=
  match st.down.find? (·.1 == m) with
  | some (_, d) => t < d
  | none => true

def St.linkChan (st : St) (a b : Nat) : Option Nat :=
  ((st.links.find? fun l => (l.1 == a && l.2.1 == b) || (l.1 == b && l.2.1 == a)).map (·.2.2)).getD none

/-- the walk line the model predicts -/
def modelWalk (st : St) (g : Nat) : String :=
  let k := match kind st.net g with
    | .standalone => "standalone" | .endpoint => "endpoint" | .transit => "transit"
  let (path, prev) := match pathIter st.net st.n g with
    | none => ("none", "none")
    | some l =>
      (listOr "empty" (l.map fun (c : Conn) => s!"{gname c.peer}:{optCh c.chan}"),
       listOr "empty" (l.map fun (c : Conn) => optG (prevHop st.net c)))
  s!"kind={k} next={optG (nextGate st.net st.n g)} end={optG (pathEnd st.net st.n g)} path={path} prev={prev}"

/-- the walk line the specification predicts -/
def specWalk (st : St) (g : Nat) : String :=
  match Paths.walkFrom st.sp g with
  | none => "kind=transit next=none end=none path=none prev=none"
  | some rest =>
    let gates := g :: rest
    let pairs := gates.zip rest
    let k := if rest.isEmpty then "standalone" else "endpoint"
    s!"kind={k} next={optG rest.head?} end={optG rest.getLast?} path={listOr "empty" (pairs.map fun p => s!"{gname p.2}:{optCh (st.linkChan p.1 p.2)}")} prev={listOr "empty" (pairs.map fun p => gname p.1)}"

def mname (m : Nat) : String := s!"m{m}"

/-- what the harness line shows for a fate -/
def showFate : Fate → String
  | .handled m t last true sender => s!"n=1 rx={mname m} t={t} sender={mname sender} receiver={mname m} last={optG last}"
  | .handled .. => "n=0"
  | .dropped .. => "n=0"
  | .outOfFuel => "out-of-fuel"
  | .sendPanic => "skipped-transit"

/-- the owner of `g` runs its handler at `at_` (only if it is still active) and sends -/
def modelFate (st : St) (g at_ delay : Nat) : Option Fate :=
  if st.active (st.ownerOf g) at_ then
    some (send st.net st.ownerOf st.active (st.ownerOf g) (st.n + 1) g (at_ + delay))
  else none

def modelSend (st : St) (g at_ delay : Nat) : String :=
  match modelFate st g at_ delay with
  | some f => showFate f
  | none => "n=0"

inductive SpecFate
  | transit | senderDown | dropped | unseen
  | delivered (rx : Nat) (t : Nat) (sender : Nat) (last : Nat)

/-- the specification: the message visits the gates of the abstract path in order, gate `i` at
    send time + the declared delays of the first `i` hops; it is dropped on the first gate before the
    last whose owner is inactive at that moment, and ignored if the far-end owner is inactive on arrival -/
def specFate (st : St) (g at_ delay : Nat) : SpecFate :=
  if !st.active (st.ownerOf g) at_ then .senderDown else
  match Paths.walkFrom st.sp g with
  | none => .transit
  | some rest =>
    let rec go (cur : Nat) (t : Nat) : List Nat → SpecFate
      | [] => if st.active (st.ownerOf cur) t then .delivered (st.ownerOf cur) t (st.ownerOf g) cur else .unseen
      | nxt :: more =>
        if !st.active (st.ownerOf cur) t then .dropped
        else go nxt (t + (st.linkChan cur nxt).getD 0) more
    go g (at_ + delay) rest

def specSend (st : St) (g at_ delay : Nat) : String :=
  match specFate st g at_ delay with
  | .transit => "skipped-transit"
  | .senderDown | .dropped | .unseen => "n=0"
  | .delivered rx t sender last => s!"n=1 rx={mname rx} t={t} sender={mname sender} receiver={mname rx} last={gname last}"

structure Stats where
  links : Nat := 0
  noops : Nat := 0
  panics : Nat := 0
  rings : Nat := 0
  walks : Nat := 0
  sends : Nat := 0
  maxhops : Nat := 0
  multihopSends : Nat := 0
  delayed : Nat := 0
  drops : Nat := 0        -- dropped on a gate whose owner was shut down (not the last gate)
  unseen : Nat := 0       -- arrived at a far-end owner that was shut down
  senderdown : Nat := 0   -- the sending module was shut down before its send

def maxGate (body : List String) : Nat := Id.run do
  let mut n := 0
  for line in body do
    match words (splitArrow line).1 with
    | "gate" :: g :: _ => if let some j := ident 'g' g then n := max n (j + 1)
    | _ => pure ()
  return n

def runCase (c : Case) : String := Id.run do
  let h := words c.header
  let id := (h[1]?).getD "?"
  let n := maxGate c.body
  let mut st : St := { n := n, sp := Paths.init n }
  let mut s : Stats := {}
  let mut i := 0
  -- sends happen when the simulation runs, i.e. after every build-time line
  let isSend := fun (l : String) => l.startsWith "send "
  for line in c.body.filter (fun l => !isSend l) ++ c.body.filter isSend do
    if line.startsWith "end" then
      if line != "end" then return s!"fail {id} op={i} kind=reject clause=run-failed impl=[{line}]"
      continue
    i := i + 1
    let (lhs, rhs) := splitArrow line
    let l := words lhs
    let impl := rhs.trimAscii.toString
    match l with
    | "mod" :: m :: rest =>
      match ident 'm' m, kvNat rest "down" with
      | some m, some d => st := { st with down := (m, d) :: st.down }
      | _, _ => pure ()
    | "gate" :: g :: rest =>
      match ident 'g' g, (kv rest "mod").bind (ident 'm') with
      | some g, some m => st := { st with owner := (g, m) :: st.owner }
      | _, _ => return s!"fail {id} op={i} kind=badline detail=[{line}]"
    | ["connect", a, b, ch] =>
      match ident 'g' a, ident 'g' b with
      | some a, some b =>
        let ch := ((ch.splitOn "=")[1]?).bind String.toNat?
        let (exp, sp') := Paths.connect st.sp a b
        let specAns := match exp with
          | .noop | .linked => "ok"
          | _ => "panic"
        let (modelAns, net', effective) := match connect st.net a b ch with
          | .ok net' => ("ok", net', !(st.net a).hasPeer b)
          | .error _ => ("panic", st.net, false)
        if impl != specAns then
          return s!"fail {id} op={i} kind=reject line=[{lhs}] spec={specAns} model={modelAns} impl={impl}"
        if impl != modelAns then
          return s!"fail {id} op={i} kind=diverge line=[{lhs}] spec={specAns} model={modelAns} impl={impl}"
        if effective != (exp == .linked) then
          return s!"fail {id} op={i} kind=diverge line=[{lhs}] detail=model-and-spec-disagree-on-linking spec={repr exp}"
        if exp == .linked then
          s := { s with links := s.links + 1 }
          if sp'.rings.length != st.sp.rings.length then s := { s with rings := s.rings + 1 }
          st := { st with links := (a, b, ch) :: st.links }
        else if exp == .noop then s := { s with noops := s.noops + 1 }
        else s := { s with panics := s.panics + 1 }
        st := { st with net := net', sp := sp' }
      | _, _ => return s!"fail {id} op={i} kind=badline detail=[{line}]"
    | ["walk", g] =>
      match ident 'g' g with
      | some g =>
        let sw := specWalk st g
        let mw := modelWalk st g
        s := { s with walks := s.walks + 1 }
        if impl != sw then
          return s!"fail {id} op={i} kind=reject line=[{lhs}] spec=[{sw}] model=[{mw}] impl=[{impl}]"
        if impl != mw then
          return s!"fail {id} op={i} kind=diverge line=[{lhs}] spec=[{sw}] model=[{mw}] impl=[{impl}]"
        match Paths.walkFrom st.sp g with
        | some rest => s := { s with maxhops := max s.maxhops rest.length }
        | none => pure ()
      | none => return s!"fail {id} op={i} kind=badline detail=[{line}]"
    | "send" :: _ :: rest =>
      match (kv rest "gate").bind (ident 'g'), kvNat rest "at", kvNat rest "delay" with
      | some g, some at_, some delay =>
        let ss := specSend st g at_ delay
        let ms := modelSend st g at_ delay
        s := { s with sends := s.sends + 1 }
        if impl != ss then
          return s!"fail {id} op={i} kind=reject line=[{lhs}] spec=[{ss}] model=[{ms}] impl=[{impl}]"
        if impl != ms then
          return s!"fail {id} op={i} kind=diverge line=[{lhs}] spec=[{ss}] model=[{ms}] impl=[{impl}]"
        match Paths.walkFrom st.sp g with
        | some rest =>
          if rest.length ≥ 2 then s := { s with multihopSends := s.multihopSends + 1 }
          if delay > 0 then s := { s with delayed := s.delayed + 1 }
        | none => pure ()
        match specFate st g at_ delay with
        | .dropped => s := { s with drops := s.drops + 1 }
        | .unseen => s := { s with unseen := s.unseen + 1 }
        | .senderDown => s := { s with senderdown := s.senderdown + 1 }
        | _ => pure ()
      | _, _, _ => return s!"fail {id} op={i} kind=badline detail=[{line}]"
    | _ => return s!"fail {id} op={i} kind=badline detail=[{line}]"
  -- non-trivial: a chain of >= 3 hops was walked and a message crossed (or was dropped on) a chain of >= 2 hops;
  -- in a case with shut-down modules additionally >= 1 message met an inactive owner (dropped in transit or ignored on arrival)
  let nt := s.maxhops ≥ 3 && s.multihopSends ≥ 1 && s.links ≥ 3 && (st.down.isEmpty || s.drops + s.unseen ≥ 1)
  return s!"ok {id} nt={if nt then 1 else 0} ops={i} links={s.links} noops={s.noops} panics={s.panics} rings={s.rings} walks={s.walks} sends={s.sends} multihop={s.multihopSends} delayed={s.delayed} maxhops={s.maxhops} downmods={st.down.length} drops={s.drops} unseen={s.unseen} senderdown={s.senderdown}"

def main (stdin : IO.FS.Stream) : IO Unit := do
  let cases ← readCases stdin
  for c in cases do
    IO.println (runCase c)

end Driver.C08

/-
Driver for C16: replays an implementation transcript (harness/src/c16.rs) through the Lean model
of `Body`/`Message` (`MB.step`, ghost heap) and through the abstract value-level specification
(`MBSpec.step`) — the very definitions the theorems in Props/C16.lean are about.
Compared per op: the answer (Some/None/Err, value read back, header), `Message::length`, the
channel's busy time, the number of value instances ever created (`i`) and of destructor runs
(`d`); at the end: every instance destroyed exactly once (`multi`, `leaked`).
-/
import Desverif.Spec.BodySpec
import Driver.Common
namespace Driver.C16
open Driver MB

/-! ### value terms -/

def digits (cs : List Char) : List Char × List Char := cs.span Char.isDigit

def natOf (ds : List Char) : Option Nat :=
  if ds.isEmpty then none else some (ds.foldl (fun n c => n * 10 + (c.toNat - '0'.toNat)) 0)

def hexVal (c : Char) : Option Nat :=
  if c.isDigit then some (c.toNat - '0'.toNat)
  else if 'a' ≤ c ∧ c ≤ 'f' then some (c.toNat - 'a'.toNat + 10)
  else none

partial def hexBytes (cs : List Char) (acc : List Nat) : List Nat × List Char :=
  match cs with
  | a :: b :: rest =>
    match hexVal a, hexVal b with
    | some x, some y => hexBytes rest (acc ++ [x * 16 + y])
    | _, _ => (acc, cs)
  | _ => (acc, cs)

mutual
partial def pVal (cs : List Char) : Option (Val × List Char) :=
  match cs with
  | 'U' :: r => some (.unit, r)
  | 'N' :: r => some (.none, r)
  | 'P' :: r => pSized r Val.prim
  | 'F' :: r => pSized r Val.fixed
  | 'S' :: r => let (bs, r') := hexBytes r []; some (.str bs, r')
  | 'J' :: '(' :: r => pWrap r Val.some
  | 'K' :: '(' :: r => pWrap r Val.ok
  | 'E' :: '(' :: r => pWrap r Val.err
  | 'B' :: '(' :: r => pWrap r Val.boxed
  | '[' :: r => (pList r ']' []).map fun (vs, r') => (.seq vs, r')
  | 'A' :: '[' :: r => (pList r ']' []).map fun (vs, r') => (.array vs, r')
  | 'T' :: '(' :: r => (pList r ')' []).map fun (vs, r') => (.tuple vs, r')
  | 'R' :: '{' :: r => (pList r '}' []).map fun (vs, r') => (.struct vs, r')
  | 'V' :: r =>
    let (ds, r1) := digits r
    match natOf ds, r1 with
    | some k, '{' :: r2 => (pList r2 '}' []).map fun (vs, r') => (.enum k vs, r')
    | _, _ => none
  | _ => none
partial def pSized (cs : List Char) (mk : Nat → Nat → Val) : Option (Val × List Char) :=
  let (ds, r1) := digits cs
  match natOf ds, r1 with
  | some s, ':' :: r2 =>
    let (ns, r3) := digits r2
    (natOf ns).map fun n => (mk s n, r3)
  | _, _ => none
partial def pWrap (cs : List Char) (mk : Val → Val) : Option (Val × List Char) :=
  match pVal cs with
  | some (v, ')' :: r) => some (mk v, r)
  | _ => none
partial def pList (cs : List Char) (close : Char) (acc : List Val) : Option (List Val × List Char) :=
  match cs with
  | c :: r =>
    if c = close ∧ acc.isEmpty then some ([], r)
    else
      match pVal cs with
      | some (v, ',' :: r') => pList r' close (acc ++ [v])
      | some (v, c' :: r') => if c' = close then some (acc ++ [v], r') else none
      | _ => none
  | [] => none
end

def parseVal (s : String) : Option Val :=
  match pVal s.toList with
  | some (v, []) => some v
  | _ => none

partial def showVal : Val → String
  | .unit => "U"
  | .prim s n => s!"P{s}:{n}"
  | .str bs => "S" ++ String.join (bs.map fun b =>
      let h := fun (x : Nat) => (if x < 10 then Char.ofNat (x + 48) else Char.ofNat (x + 87)).toString
      h (b / 16) ++ h (b % 16))
  | .fixed s n => s!"F{s}:{n}"
  | .none => "N"
  | .some v => s!"J({showVal v})"
  | .ok v => s!"K({showVal v})"
  | .err v => s!"E({showVal v})"
  | .boxed v => s!"B({showVal v})"
  | .seq vs => "[" ++ ",".intercalate (vs.map showVal) ++ "]"
  | .array vs => "A[" ++ ",".intercalate (vs.map showVal) ++ "]"
  | .tuple vs => "T(" ++ ",".intercalate (vs.map showVal) ++ ")"
  | .struct vs => "R{" ++ ",".intercalate (vs.map showVal) ++ "}"
  | .enum k vs => s!"V{k}" ++ "{" ++ ",".intercalate (vs.map showVal) ++ "}"

def showOV : Option Val → String
  | some v => showVal v
  | none => "<undefined>"

def showOut : Out → String
  | .done => "ok" | .noSlot => "noslot" | .cloned => "cloned" | .panic => "panic"
  | .notClonable => "none"
  | .castOk v h => s!"ok {showOV v} id={h.id} kind={h.kind}"
  | .castErr => "err"
  | .content none => "none"
  | .content (some v) => s!"some {showOV v}"
  | .bool b => if b then "true" else "false"
  | .length n bits => s!"len={n} bits={bits}"

/-! ### transcript lines -/

def parseCtor (s : String) (sizeOf : Option Nat) : Option Ctor :=
  if s = "c" then some .plain
  else if s = "nc" then some .nonClonable
  else if s = "nd" then sizeOf.map Ctor.nonDebugable
  else match s.splitOn ":" with
    | ["wl", n] => n.toNat?.map Ctor.withLen
    | _ => none

/-- what the implementation reported for `len`: busy time (ns, `none` = panicked) at a bitrate -/
structure Busy where
  ns : Option Nat
  bitrate : Nat

/-- `calculate_busy` against the exact rational `bits / bitrate` seconds: ±1 ns for the rounding to
    whole nanoseconds plus a relative 2^-48 for the f64 arithmetic of the implementation
    (`usize as f64`, one division, `Duration::from_secs_f64`: a few ulps of 2^-53) -/
def busyOk (bits bitrate ns : Nat) : Bool :=
  if bitrate = 0 then ns = 0
  else
    let exact := bits * 1000000000          -- = exact ns * bitrate
    let got := ns * bitrate
    let tol := bitrate * (1 + ns / 281474976710656)
    got ≤ exact + tol && exact ≤ got + tol

/-- the bit count a busy time stands for (only used to report a disagreement) -/
def impliedBits (b : Busy) : Nat :=
  match b.ns with
  | some ns => ns * b.bitrate / 1000000000
  | none => 0

/-- operation and the implementation's answer (as an `Out`) -/
def parseLine (line : String) : Option (Op × Out × Nat × Nat × Option Busy) :=
  let (lhs, rhs) := splitArrow line
  let l := words lhs
  let r := words rhs
  match kvNat r "i", kvNat r "d", r.head? with
  | some i, some d, some ans =>
    let fin (op : Op) (o : Option Out) : Option (Op × Out × Nat × Nat × Option Busy) := o.map fun o => (op, o, i, d, none)
    let simple (okOut : Out) : Option Out :=
      if ans = "ok" then some okOut else if ans = "noslot" then some .noSlot else none
    match l with
    | ["new", tag, id, kind] =>
      match id.toNat?, kind.toNat? with
      | some id, some kind => fin (.new tag id kind) (simple .done)
      | _, _ => none
    | "set" :: tag :: c :: ty :: v :: _ =>
      -- a trailing `lay=<k>` names the in-memory layout the harness built the value in; the
      -- abstract value (and so the model) does not depend on it
      match parseCtor c (kvNat r "size" |>.orElse fun _ => some 0), parseVal v with
      | some c, some v => fin (.set tag c ⟨ty⟩ v) (simple .done)
      | _, _ => none
    | "len" :: tag :: rest =>
      if ans = "noslot" then fin (.length tag) (some .noSlot)
      else match kvNat r "len", kv r "busy" with
        | some n, some busy =>
          let br := (kvNat rest "br").getD 8
          -- the bit count is filled in by `runCase` once the model's answer is known
          some (.length tag, .length n 0, i, d, some ⟨busy.toNat?, br⟩)
        | _, _ => none
    | [op, src, dst] =>
      if op = "clone" ∨ op = "tryclone" then
        let o : Option Out :=
          if ans = "cloned" then some .cloned else if ans = "noslot" then some .noSlot
          else if ans = "panic" then some .panic else if ans = "none" then some .notClonable else none
        fin (if op = "clone" then .clone src dst else .tryClone src dst) o
      else if op = "cast" then
        let o : Option Out :=
          if ans = "err" then some .castErr else if ans = "noslot" then some .noSlot
          else if ans = "ok" then
            match r with
            | _ :: v :: _ =>
              match parseVal v, kvNat r "id", kvNat r "kind" with
              | some v, some id, some kind => some (.castOk (some v) ⟨id, kind⟩)
              | _, _, _ => none
            | _ => none
          else none
        fin (.cast src ⟨dst⟩) o
      else if op = "content" ∨ op = "contentmut" then
        let o : Option Out :=
          if ans = "none" then some (.content none) else if ans = "noslot" then some .noSlot
          else if ans = "some" then
            match r with
            | _ :: v :: _ => (parseVal v).map fun v => .content (some (some v))
            | _ => none
          else none
        fin (.content src ⟨dst⟩) o
      else if op = "cancast" then
        let o : Option Out :=
          if ans = "true" then some (.bool true) else if ans = "false" then some (.bool false)
          else if ans = "noslot" then some .noSlot else none
        fin (.canCast src ⟨dst⟩) o
      else none
    | ["drop", tag] => fin (.drop tag) (simple .done)
    | _ => none
  | _, _, _ => none

structure Stats where
  castOk : Nat := 0
  castErr : Nat := 0       -- failed cast on a message that has a body (type mismatch)
  readOk : Nat := 0
  readNone : Nat := 0      -- refused borrow on a message that has a body
  clones : Nat := 0        -- clones that duplicated a body
  refused : Nat := 0       -- clone of a non-clonable body
  overwrites : Nat := 0    -- set on a message that already had a body
  huge : Nat := 0          -- `len` on a message of at least 2^29 bytes (more than u32::MAX bits)
  layouts : Nat := 0       -- values built in a non-canonical in-memory layout
  wrapped : Nat := 0       -- … of which contain a deque wrapped around the end of its ring buffer

def hasBody (st : MBSpec.State) (tag : String) : Bool :=
  match lookup tag st.slots with
  | some m => m.content.isSome
  | none => false

def multiOf (h : Heap) : Nat := (h.boxes.filter fun b => b.drops + b.moved > 1).length
def leakedOf (h : Heap) : Nat := (h.boxes.filter fun b => b.drops + b.moved = 0).length

def runCase (c : Case) : String := Id.run do
  let hd := words c.header
  let id := (hd[1]?).getD "?"
  let mut ms : MB.State := {}
  let mut ss : MBSpec.State := {}
  let mut st : Stats := {}
  let mut i := 0
  for line in c.body do
    if line.startsWith "end" then
      let r := words line
      match kvNat r "i", kvNat r "d", kvNat r "multi", kvNat r "leaked" with
      | some ci, some cd, some multi, some leaked =>
        let mf := ms.finish
        let sf := ss.finish
        let implS := s!"i={ci},d={cd},multi={multi},leaked={leaked}"
        let specS := s!"i={sf.created},d={sf.dropped},multi=0,leaked=0"
        let modelS := s!"i={mf.heap.created},d={Heap.released mf.heap.boxes},multi={multiOf mf.heap},leaked={leakedOf mf.heap}"
        if implS != specS then
          return s!"fail {id} op={i + 1} kind=reject line=[{line}] clause=dropped-exactly-once spec={specS} model={modelS},faults={mf.heap.faults} impl={implS}"
        if implS != modelS || mf.heap.faults != 0 then
          return s!"fail {id} op={i + 1} kind=diverge line=[{line}] spec={specS} model={modelS},faults={mf.heap.faults} impl={implS}"
      | _, _, _, _ => return s!"fail {id} op={i + 1} kind=badline detail={line}"
      continue
    i := i + 1
    match parseLine line with
    | none => return s!"fail {id} op={i} kind=badline detail={line}"
    | some (op, obs0, ci, cd, busy) =>
      let (ms', mo) := MB.step ms op
      let (ss', so) := MBSpec.step ss op
      -- `len`: the busy time stands for the specification's bit count iff it is the exact
      -- rational bits / bitrate up to rounding; otherwise for the bit count it implies
      let obs : Out :=
        match obs0, busy, so with
        | .length n _, some b, .length _ sbits =>
          match b.ns with
          | some ns => if busyOk sbits b.bitrate ns then .length n sbits else .length n (impliedBits b)
          | none => .panic
        | o, _, _ => o
      if let .length n _ := so then
        if n ≥ 536870912 then st := { st with huge := st.huge + 1 }
      if let (.set .., .done) := (op, so) then
        if (kvNat (words (splitArrow line).2) "wr").getD 0 > 0 then st := { st with wrapped := st.wrapped + 1 }
        if (kvNat (words (splitArrow line).1) "lay").getD 0 > 0 then st := { st with layouts := st.layouts + 1 }
      -- statistics for the non-triviality rule
      match op, so with
      | .cast .., .castOk .. => st := { st with castOk := st.castOk + 1 }
      | .cast tag _, .castErr => if hasBody ss tag then st := { st with castErr := st.castErr + 1 }
      | .content .., .content (some _) => st := { st with readOk := st.readOk + 1 }
      | .content tag _, .content none => if hasBody ss tag then st := { st with readNone := st.readNone + 1 }
      | .clone src _, .cloned => if hasBody ss src then st := { st with clones := st.clones + 1 }
      | .tryClone src _, .cloned => if hasBody ss src then st := { st with clones := st.clones + 1 }
      | .clone .., .panic => st := { st with refused := st.refused + 1 }
      | .tryClone .., .notClonable => st := { st with refused := st.refused + 1 }
      | .set tag .., .done => if hasBody ss tag then st := { st with overwrites := st.overwrites + 1 }
      | _, _ => pure ()
      let implS := s!"{showOut obs},i={ci},d={cd}"
      let specS := s!"{showOut so},i={ss'.created},d={ss'.dropped}"
      let modelS := s!"{showOut mo},i={ms'.heap.created},d={Heap.released ms'.heap.boxes}"
      let detail := s!"line=[{line}] spec={specS} model={modelS},faults={ms'.heap.faults} impl={implS}"
      if !(obs == so) || ci != ss'.created || cd != ss'.dropped then
        return s!"fail {id} op={i} kind=reject {detail}"
      if !(obs == mo) || ci != ms'.heap.created || cd != Heap.released ms'.heap.boxes || ms'.heap.faults != 0 then
        return s!"fail {id} op={i} kind=diverge {detail}"
      ms := ms'
      ss := ss'
  let nt := st.castOk > 0 && st.castErr > 0 && st.clones > 0 && st.readOk > 0 && st.readNone > 0
  return s!"ok {id} nt={if nt then 1 else 0} ops={i} castok={st.castOk} casterr={st.castErr} readok={st.readOk} readnone={st.readNone} clones={st.clones} refused={st.refused} overwrites={st.overwrites} huge={st.huge} layouts={st.layouts} wrapped={st.wrapped}"

def main (stdin : IO.FS.Stream) : IO Unit := do
  let cases ← readCases stdin
  for c in cases do
    IO.println (runCase c)

end Driver.C16

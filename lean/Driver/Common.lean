/-
Line-protocol helpers for the driver (core Lean only).
-/
namespace Driver

def words (line : String) : List String :=
  (line.trimAscii.toString.splitOn " ").filter (· ≠ "")

/-- `key=value` lookup among tokens -/
def kv (toks : List String) (key : String) : Option String :=
  toks.findSome? fun tok =>
    match tok.splitOn "=" with
    | [k, v] => if k = key then some v else none
    | _ => none

def kvNat (toks : List String) (key : String) : Option Nat := (kv toks key).bind String.toNat?

/-- split `lhs -> rhs` -/
def splitArrow (line : String) : String × String :=
  match line.splitOn " -> " with
  | [a, b] => (a, b)
  | a :: _ => (a, "")
  | [] => ("", "")

structure Case where
  header : String
  body : List String

/-- read all of stdin into cases (`case …` … `end`) -/
partial def readCases (h : IO.FS.Stream) : IO (Array Case) := do
  let mut out : Array Case := #[]
  let mut cur : Option Case := none
  repeat
    let line ← h.getLine
    if line.isEmpty then break
    let l := line.trimAscii.toString
    if l.isEmpty || l.startsWith "#" then continue
    if l.startsWith "case " then
      if let some c := cur then out := out.push c
      cur := some { header := l, body := [] }
    else if l.startsWith "end" then
      if let some c := cur then out := out.push { c with body := c.body ++ [l] }
      cur := none
    else
      if let some c := cur then cur := some { c with body := c.body ++ [l] }
  if let some c := cur then out := out.push c
  return out

end Driver

/-
Driver for C14: builds the `Proc.Config` a script describes (same parsing rules as
harness/src/c14.rs), runs the model (`Proc.run` — the definitions the theorems of Props/C14.lean
are about), and compares the model's call log with the log of the real simulation, entry by
entry.  Independently the implementation log is parsed by the bracket acceptor
`Proc.rejectsAt` (Spec/ProcShape.lean): a log that is not a concatenation of well-formed brackets
is a concrete counterexample (`kind=reject`), a well-formed log that differs from the model's
breaks the tie (`kind=diverge`).
-/
import Desverif.Spec.ProcShape
import Driver.Common
namespace Driver.C14
open Proc Driver

structure EmitLine where
  who : String
  hook : String
  key : Nat
  emit : HEmit

structure ElemDecl where
  name : String
  owner : Option String      -- none = global

structure ModDecl where
  name : String
  stages : Nat
  mode : StackMode

structure DownLine where
  who : String
  hook : String
  n : Nat
  restartIn : Option Nat

structure Script where
  downs : List DownLine := []
  mods : List ModDecl := []
  elems : List ElemDecl := []
  rules : List (String × Nat × Act) := []
  emits : List EmitLine := []
  inits : List (Nat × Nat × Nat) := []

def modIdx (sc : Script) (name : String) : Option Nat :=
  sc.mods.findIdx? (·.name == name)

def parseScript (body : List String) : Script := Id.run do
  let mut sc : Script := {}
  -- pass 1a: modules
  for line in body do
    match words line with
    | "mod" :: m :: rest =>
      if (modIdx sc m).isNone then
        let stages := (kvNat rest "stages").getD 1
        let mode := match kv rest "mode" with
          | some "prepend" => StackMode.prepend
          | some "replace" => StackMode.replace
          | _ => StackMode.append
        sc := { sc with mods := sc.mods ++ [⟨m, stages, mode⟩] }
    | _ => pure ()
  -- pass 1b: elements
  for line in body do
    match words line with
    | ["gel", e] =>
      if !sc.elems.any (·.name == e) then sc := { sc with elems := sc.elems ++ [⟨e, none⟩] }
    | ["el", e, m] =>
      if !sc.elems.any (·.name == e) then
        match m.splitOn "=" with
        | ["mod", mn] => if (modIdx sc mn).isSome then sc := { sc with elems := sc.elems ++ [⟨e, some mn⟩] }
        | _ => pure ()
    | _ => pure ()
  -- pass 2: behaviour
  for line in body do
    match words line with
    | ["rule", e, id, act] =>
      match id.toNat? with
      | some id =>
        let a : Option Act := if act == "pass" then some .pass else if act == "consume" then some .consume
          else match act.splitOn ":" with
            | ["mod", n] => n.toNat?.map Act.modify
            | _ => none
        match a with
        | some a =>
          if sc.elems.any (·.name == e) && !sc.rules.any (fun r => r.1 == e && r.2.1 == id) then
            sc := { sc with rules := sc.rules ++ [(e, id, a)] }
        | none => pure ()
      | none => pure ()
    | "emit" :: who :: hook :: key :: kind :: dst :: delay :: id :: rest =>
      match key.toNat?, delay.toNat?, id.toNat? with
      | some key, some delay, some id =>
        let send := kind == "send"
        if kind == "send" || kind == "sched" then
          let d := modIdx sc dst
          if !(send && d.isNone) then
            let em : Emit := ⟨send, d.getD 0, delay, id⟩
            -- a `sched` ignores its destination: encode it as a non-send
            let em := if send then em else { em with dst := 0 }
            let isH := who.startsWith "H:"
            let he : HEmit := match (if isH then kvNat rest "task" else none) with
              | some x =>
                let fin : TaskFin := if rest.contains "fin=panic" then .panic
                  else if rest.contains "fin=hang" then .hang else .send em
                let join : JoinMode := if rest.contains "join=must" then .must
                  else if rest.contains "join=try" then .try_ else .detached
                .task x ⟨fin, join⟩
              | none => .now em
            sc := { sc with emits := sc.emits ++ [⟨who, hook, key, he⟩] }
      | _, _, _ => pure ()
    | ["down", who, hook, n, r] =>
      match n.toNat?, (if r == "-" then some none else r.toNat?.map some) with
      | some n, some r => sc := { sc with downs := sc.downs ++ [⟨who, hook, n, r⟩] }
      | _, _ => pure ()
    | ["init", m, id, t] =>
      match modIdx sc m, id.toNat?, t.toNat? with
      | some mi, some id, some t => sc := { sc with inits := sc.inits ++ [(mi, id, t)] }
      | _, _, _ => pure ()
    | _ => pure ()
  return sc

def elemOf (sc : Script) (idx : Nat) (d : ElemDecl) : Elem :=
  let rules := sc.rules.filter (·.1 == d.name)
  let ems (hook : String) (key : Nat) : List Action :=
    (sc.emits.filter fun l => l.who == d.name && l.hook == hook && l.key == key).filterMap fun l =>
      match l.emit with
      | .now e => some (.send e)
      | .task _ _ => none
      | .shutdown _ => none
  let dns (hook : String) (n : Nat) : List Action :=
    (sc.downs.filter fun l => l.who == d.name && l.hook == hook && l.n == n).map fun l => .shutdown l.restartIn
  { tag := idx
    act := fun id => match rules.find? (·.2.1 == id) with
      | some r => r.2.2
      | none => .pass
    onStart := fun n => ems "start" n ++ dns "start" n
    onInc := fun id n => ems "inc" id ++ dns "inc" n
    onEnd := fun n => ems "end" n ++ dns "end" n }

def handlerOf (sc : Script) (m : ModDecl) : Handler :=
  let ems (hook : String) (key : Nat) : List HEmit :=
    (sc.emits.filter fun l => l.who == "H:" ++ m.name && l.hook == hook && l.key == key).map (·.emit)
  let dns (hook : String) (n : Nat) : List HEmit :=
    (sc.downs.filter fun l => l.who == "H:" ++ m.name && l.hook == hook && l.n == n).map fun l => .shutdown l.restartIn
  { stages := m.stages
    onMsg := fun id n => ems "msg" id ++ dns "msg" n
    onSimStart := fun k n => ems "simstart" k ++ dns "simstart" n
    onSimEnd := ems "simend" 0 }

/-- per module: the stack as element names (for reading the implementation log) and as model state -/
def stacksOf (sc : Script) : List (List String × ModRt) :=
  let indexed := sc.elems.zipIdx
  let globals := indexed.filter (·.1.owner.isNone)
  sc.mods.map fun m =>
    let own := indexed.filter (·.1.owner == some m.name)
    let mk (l : List (ElemDecl × Nat)) : List Elem := l.map fun p => elemOf sc p.2 p.1
    let st := buildStack m.mode (mk globals) (mk own)
    let names := st.map fun e => ((sc.elems[e.spec.tag]?).map (·.name)).getD "?"
    (names, ModRt.fresh st (handlerOf sc m))

def hookOf : String → Option Hook
  | "start" => some .start | "inc" => some .inc | "end" => some .end_ | "msg" => some .msg
  | "simstart" => some .simStart | "simend" => some .simEnd | _ => none

def hookName : Hook → String
  | .start => "start" | .inc => "inc" | .end_ => "end" | .msg => "msg"
  | .simStart => "simstart" | .simEnd => "simend"

def parseObs (sc : Script) (stacks : List (List String × ModRt)) (line : String) : Option Entry :=
  match words line with
  | ["obs", m, who, hook, msg, t] =>
    match modIdx sc m, hookOf hook, t.toNat? with
    | some mi, some h, some t =>
      let msg? : Option (Option Nat) := if msg == "-" then some none else msg.toNat?.map some
      let who? : Option (Option Nat) :=
        if who == "H" then some none
        else match stacks[mi]? with
          | some (names, _) => (names.findIdx? (· == who)).map some
          | none => none
      match msg?, who? with
      | some msg, some who => some ⟨mi, who, h, msg, t⟩
      | _, _ => none
    | _, _, _ => none
  | _ => none

/-- `obs <M> <who> down <restart|-> <t>` -> (module, restart time) -/
def parseDown (sc : Script) (line : String) : Option (Nat × Option Nat) :=
  match words line with
  | ["obs", m, _, "down", r, _] =>
    match modIdx sc m, (if r == "-" then some none else r.toNat?.map some) with
    | some mi, some r => some (mi, r)
    | _, _ => none
  | _ => none

def showEntry (sc : Script) (stacks : List (List String × ModRt)) (e : Entry) : String :=
  let m := ((sc.mods[e.mod]?).map (·.name)).getD s!"#{e.mod}"
  let who := match e.who with
    | none => "H"
    | some i => ((stacks[e.mod]?).bind (·.1[i]?)).getD s!"#{i}"
  let msg := match e.msg with | some x => toString x | none => "-"
  s!"{m}/{who}/{hookName e.hook}/{msg}/{e.time}"

def showOpt (sc : Script) (stacks : List (List String × ModRt)) : Option Entry → String
  | some e => showEntry sc stacks e
  | none => "<nothing>"

def firstDiff (a b : List Entry) : Option Nat := Id.run do
  let n := max a.length b.length
  for i in [0:n] do
    if a[i]? != b[i]? then return some i
  return none

def fuel : Nat := 20000

def runCase (c : Case) : String := Id.run do
  let id := ((words c.header)[1]?).getD "?"
  let body := c.body.filter fun l => !(l.startsWith "obs ") && !(l.startsWith "res ") && !(l.startsWith "end")
  let sc := parseScript body
  let stacks := stacksOf sc
  -- the implementation's answer
  let mut impl : List Entry := []
  let mut implDowns : List (Nat × Nat × Option Nat) := []
  let mut res := ""
  let mut i := 0
  for line in c.body do
    if line.startsWith "obs " then
      match parseDown sc line with
      | some (mi, r) => implDowns := (i, mi, r) :: implDowns
      | none =>
        i := i + 1
        match parseObs sc stacks line with
        | some e => impl := e :: impl
        | none => return s!"fail {id} op={i} kind=badline detail=[{line}]"
    else if line.startsWith "res " then
      res := line
  impl := impl.reverse
  implDowns := implDowns.reverse
  if !(res.startsWith "res ok") && !(res.startsWith "res err=join:") then
    -- no scripted hook or handler panics: a run that fails otherwise than by join errors is a counterexample by itself
    return s!"fail {id} op={impl.length} kind=reject clause=run-failed impl=[{res}]"
  -- A: bracket grammar
  let acts := stacks.map fun p => p.2.elems.map (·.spec.act)
  match rejectsAt acts impl with
  | some k =>
    return s!"fail {id} op={k} kind=reject clause=bracket-shape at=[{showOpt sc stacks impl[k]?}] prev=[{showOpt sc stacks (if k = 0 then none else impl[k-1]?)}]"
  | none => pure ()
  -- A: lifecycle — no hook for a module that is shut down
  let brs := brackets acts impl
  let offs := brs.foldl (fun (acc : List Nat × Nat) b =>
    (acc.1 ++ [acc.2], acc.2 + (shape b.1 b.2.1 ((acts[b.1]?).getD []) b.2.2).length)) ([], 0)
  let lbrs := (brs.zip offs.1).map fun p =>
    let len := (shape p.1.1 p.1.2.1 ((acts[p.1.1]?).getD []) p.1.2.2).length
    (p.1.1, p.1.2.1, p.1.2.2,
      (implDowns.filter fun d => d.2.1 == p.1.1 && p.2 < d.1 && d.1 ≤ p.2 + len).map (·.2.2))
  match lifeRejectsAt (sc.mods.map (·.stages)) lbrs (List.replicate sc.mods.length {}) 0 with
  | some k =>
    let pos := (offs.1[k]?).getD 0
    let b := lbrs[k]?
    let kindStr := match b with
      | some (_, _, .message x, _) => s!"message:{x}"
      | some (_, _, .wakeup, _) => "wakeup"
      | some (_, _, .simStart x, _) => s!"simstart:{x}"
      | some (_, _, .simEnd, _) => "simend"
      | none => "?"
    return s!"fail {id} op={pos} kind=reject clause=hook-on-inactive-module event={kindStr} at=[{showOpt sc stacks impl[pos]?}]"
  | none => pure ()
  -- T: the model
  let s := run fuel { mods := stacks.map (·.2), inits := sc.inits }
  match s.fault with
  | some f => return s!"fail {id} op=0 kind=badcase detail=model-{f}"
  | none => pure ()
  match firstDiff s.log impl with
  | some k =>
    return s!"fail {id} op={k} kind=diverge model=[{showOpt sc stacks s.log[k]?}] impl=[{showOpt sc stacks impl[k]?}] prev=[{showOpt sc stacks (if k = 0 then none else impl[k-1]?)}]"
  | none => pure ()
  -- what `run()` returned: Ok, or the join errors of the tear-down in order
  let errName : JoinErr → String
    | .notFinished => "NotFinished" | .paniced => "Paniced" | .tokio => "Tokio"
  let expectRes := if s.errors.isEmpty then "ok"
    else "err=join:" ++ ",".intercalate (s.errors.map fun e => (((sc.mods[e.1]?).map (·.name)).getD "?") ++ "/" ++ errName e.2)
  let implRes := ((words res)[1]?).getD ""
  if implRes != expectRes then
    return s!"fail {id} op={impl.length} kind=diverge clause=run-result model=[{expectRes}] impl=[{implRes}]"
  if s.downs != implDowns then
    return s!"fail {id} op=0 kind=diverge clause=shutdown-requests model={s.downs.length} impl={implDowns.length}"
  -- evidence
  let downEvents := (lbrs.filter fun b => !b.2.2.2.isEmpty).length
  let restarts := (s.evs.toList.filter fun e => match e with | .restart _ => true | _ => false).length
  -- deliveries that found their module shut down (no bracket was drawn for them)
  let ignored := (s.evs.toList.filter fun e => match e with | .deliver .. => true | _ => false).length - (brs.filter fun b => match b.2.2 with | .message _ => true | _ => false).length
  let msgBr := brs.filter fun b => match b.2.2 with | .message _ => true | _ => false
  let isConsumed (b : Nat × Nat × Kind) : Bool :=
    match acts[b.1]? with
    | some a => (msgAt a b.2.2.msg? a.length).isNone
    | none => false
  let consumed := (msgBr.filter isConsumed).length
  let handled := msgBr.length - consumed
  let deepConsumed := (msgBr.filter fun b => match acts[b.1]? with
    | some a => a.length ≥ 2 && isConsumed b && (msgAt a b.2.2.msg? 1).isSome
    | none => false).length
  let modified := (impl.filter fun e => e.hook == .msg &&
    (match msgBr.find? (fun b => b.1 == e.mod && b.2.1 == e.time) with
     | some _ => true | none => false)).length
  let ties := ((brs.zip (brs.drop 1)).filter fun p => p.1.2.1 == p.2.2.1).length
  let maxStack := acts.foldl (fun a l => max a l.length) 0
  let emptyStacks := (acts.filter (·.isEmpty)).length
  let wakeups := (s.evs.toList.filter fun e => match e with | .wakeup _ => true | _ => false).length
  let exits := (s.evs.toList.filter fun e => match e with | .exitConn .. => true | _ => false).length
  let downStacked := (lbrs.filter fun b => !b.2.2.2.isEmpty && (match acts[b.1]? with | some a => !a.isEmpty | none => false)).length
  let _ := modified
  let nt := deepConsumed > 0 && handled > 0 && maxStack ≥ 2 && ties > 0
  return s!"ok {id} nt={if nt then 1 else 0} entries={impl.length} events={brs.length} msgs={msgBr.length} consumed={consumed} deepconsumed={deepConsumed} handled={handled} ties={ties} wakeups={wakeups} gatehops={exits} maxstack={maxStack} emptystacks={emptyStacks} mods={acts.length} shutdowns={downEvents} shutdownsstacked={downStacked} restarts={restarts} ignoredmsgs={ignored} joinerrors={s.errors.length}"

def main (stdin : IO.FS.Stream) : IO Unit := do
  let cases ← readCases stdin
  for c in cases do
    IO.println (runCase c)

end Driver.C14

/-
Driver for C01 / C03: replays an implementation transcript through the calendar-queue model
(`CQRun.mstep`, with the case's own `n`,`t`) and the abstract event set (`CQRun.sstep`) —
the very definitions the theorems in Props/C01.lean and Props/C03.lean are about.
-/
import Desverif.Model.CQRun
import Driver.Common
namespace Driver.C01
open CQRun Driver

structure Obs where
  out : Out
  len : Nat
  time : Nat
  empty : Bool
deriving Repr, DecidableEq

def showOut : Out → String
  | .added => "ok" | .rejected => "panic" | .cancelDone => "ok" | .badHandle => "bad-handle"
  | .fetched v t => s!"{v}@{t}" | .empty => "panic" | .internal => "internal"
  | .peeked none => "none" | .peeked (some t) => s!"{t}"

def showObs (o : Obs) : String := s!"{showOut o.out},len={o.len},time={o.time},empty={if o.empty then 1 else 0}"

/-- parse one transcript line into the operation and what the implementation answered -/
def parseLine (line : String) : Option (Op × Obs) :=
  let (lhs, rhs) := splitArrow line
  let l := words lhs
  let r := words rhs
  let len := kvNat r "len"
  let time := kvNat r "time"
  let empty := kvNat r "empty"
  match len, time, empty, r.head? with
  | some len, some time, some empty, some ans =>
    let mk (op : Op) (o : Out) : Option (Op × Obs) := some (op, ⟨o, len, time, empty != 0⟩)
    match l with
    | ["add", t, v] =>
      match t.toNat?, v.toNat? with
      | some t, some v =>
        if ans = "ok" then mk (.add t v) .added
        else if ans = "panic" then mk (.add t v) .rejected else none
      | _, _ => none
    | ["cancel", k] =>
      match k.toNat? with
      | some k => if ans = "ok" then mk (.cancel k) .cancelDone else mk (.cancel k) .internal
      | none => none
    | ["peek"] =>
      if ans = "none" then mk .peek (.peeked none)
      else match ans.toNat? with
        | some t => mk .peek (.peeked (some t))
        | none => none
    | ["fetch"] =>
      if ans = "panic" then mk .fetch .empty
      else match ans.splitOn "@" with
        | [v, t] => match v.toNat?, t.toNat? with
          | some v, some t => mk .fetch (.fetched v t)
          | _, _ => none
        | _ => none
    | _ => none
  | _, _, _, _ => none

structure Stats where
  ties : Nat := 0          -- fetched an event with the same timestamp as the previous fetch
  cancelsPending : Nat := 0
  skips : Nat := 0         -- fetches that moved the calendar window
  zeroFetch : Nat := 0     -- fetches served from the zero bucket while calendar events tie
  rejects : Nat := 0

/-- run one case; returns the verdict line -/
def runCase (c : Case) : String := Id.run do
  let h := words c.header
  let id := (h[1]?).getD "?"
  let n := (kvNat h "n").getD 0
  let t := (kvNat h "t").getD 0
  if n = 0 || t = 0 then return s!"fail {id} op=0 kind=badcase detail=n-or-t-zero"
  let mut ms : CQ.State × Handles := (CQ.init n t, [])
  let mut ss : FES.State × Handles := (FES.init, [])
  let mut st : Stats := {}
  let mut lastFetch : Option Nat := none
  let mut i := 0
  for line in c.body do
    if line.startsWith "end" then
      if line != "end" then return s!"fail {id} op={i} kind=reject clause=drop-panic impl={line}"
      continue
    i := i + 1
    if (line.splitOn "skipped-outlier-pending").length > 1 then
      -- the harness refused to fetch because (as far as it can tell) only far-future outliers (> 2^62 ns ahead) are
      -- pending: accepted iff the abstract event set agrees (same length, nothing nearer), and the case ends here
      let toks := words ((splitArrow line).2)
      let olen := (kvNat toks "len").getD 0
      let pendAll := ss.1.zero ++ ss.1.pend
      let allFar := pendAll.all (fun e => e.time ≥ ss.1.cur + 2 ^ 62)
      if olen == FES.len ss.1 && olen > 0 && allFar then break
      else return s!"fail {id} op={i} kind=reject line=[{line}] clause=outlier-stuck spec-len={FES.len ss.1} impl-len={olen} (an outlier the script cancelled is still in the queue, or nearer events are pending)"
    match parseLine line with
    | none => return s!"fail {id} op={i} kind=badline detail={line}"
    | some (op, obs) =>
      let (ms', mo) := mstep ms op
      let (ss', so) := sstep ss op
      let mobs : Obs := ⟨mo, ms'.1.len, ms'.1.tcur, ms'.1.len == 0⟩
      let sobs : Obs := ⟨so, FES.len ss'.1, ss'.1.cur, FES.len ss'.1 == 0⟩
      -- statistics for the non-triviality rule
      match op, so with
      | .cancel _, .cancelDone => if FES.len ss'.1 < FES.len ss.1 then st := { st with cancelsPending := st.cancelsPending + 1 }
      | .add .., .rejected => st := { st with rejects := st.rejects + 1 }
      | .fetch, .fetched _ tm =>
        if lastFetch == some tm then st := { st with ties := st.ties + 1 }
        if ms'.1.t0 != ms.1.t0 then st := { st with skips := st.skips + 1 }
        lastFetch := some tm
      | _, _ => pure ()
      if obs != sobs then
        return s!"fail {id} op={i} kind=reject line=[{line}] spec={showObs sobs} model={showObs mobs} impl={showObs obs}"
      if obs != mobs then
        return s!"fail {id} op={i} kind=diverge line=[{line}] spec={showObs sobs} model={showObs mobs} impl={showObs obs}"
      ms := ms'
      ss := ss'
  let nt := st.ties > 0 && st.cancelsPending > 0 && st.skips > 0
  return s!"ok {id} nt={if nt then 1 else 0} ops={i} ties={st.ties} cancels={st.cancelsPending} skips={st.skips} rejects={st.rejects}"

def main (stdin : IO.FS.Stream) : IO Unit := do
  let cases ← readCases stdin
  for c in cases do
    IO.println (runCase c)

end Driver.C01

/-
Driver for C02 / C10 / C11: replays a runtime session transcript through the runtime model
(`Rt`, Model/Rt.lean) over the calendar-queue model (the case's own n,t) and over the abstract
event set — the definitions the theorems in Props/C02, C10, C11 are about.
-/
import Desverif.Model.Rt
import Driver.Common
namespace Driver.C02
open Driver Rt

/-! limit expressions: none | ec:N | st:N | and(A,B) | or(A,B) -/

def takeDigits : List Char → List Char × List Char
  | c :: cs => if c.isDigit then let (d, r) := takeDigits cs; (c :: d, r) else ([], c :: cs)
  | [] => ([], [])

def stripPrefix (p : String) (s : List Char) : Option (List Char) :=
  let pl := p.toList
  if s.take pl.length = pl then some (s.drop pl.length) else none

def parseLimitAux : Nat → List Char → Option (Limit × List Char)
  | 0, _ => none
  | fuel + 1, s =>
    match stripPrefix "none" s with
    | some r => some (.none, r)
    | none =>
    match stripPrefix "ec:" s with
    | some r => let (d, r') := takeDigits r; (String.ofList d).toNat?.map (fun n => (.eventCount n, r'))
    | none =>
    match stripPrefix "st:" s with
    | some r => let (d, r') := takeDigits r; (String.ofList d).toNat?.map (fun n => (.simTime n, r'))
    | none =>
    let bin (mk : Limit → Limit → Limit) (r : List Char) : Option (Limit × List Char) :=
      match parseLimitAux fuel r with
      | some (a, ',' :: r1) =>
        match parseLimitAux fuel r1 with
        | some (b, ')' :: r2) => some (mk a b, r2)
        | _ => none
      | _ => none
    match stripPrefix "and(" s with
    | some r => bin .and r
    | none =>
    match stripPrefix "or(" s with
    | some r => bin .or r
    | none => none

def parseLimit (s : String) : Option Limit :=
  match parseLimitAux 64 s.toList with
  | some (l, []) => some l
  | _ => none

def parseAct (tok : String) : Option Act :=
  match tok.toList with
  | sign :: rest =>
    if sign = '+' || sign = '-' then
      match (String.ofList rest).splitOn ":" with
      | [d, c] => match d.toNat?, c.toNat? with
        | some d, some c => some ⟨sign = '-', d, c⟩
        | _, _ => none
      | _ => none
    else none
  | [] => none

def setNode (prog : Prog) (i : Nat) (acts : List Act) : Prog :=
  let prog := if prog.length ≤ i then prog ++ List.replicate (i + 1 - prog.length) [] else prog
  prog.set i acts

def showObs : Obs → String
  | .handled n t => s!"h {n} {t}"
  | .sched n t ok => s!"a {n} {t} {if ok then "ok" else "rej"}"
  | .internal => "internal"

def showPaused (p : Paused) : String := s!"p itr={p.itr} now={p.now} rem={p.remaining} sched={p.scheduled}"

def showRem (l : List (Nat × Nat)) : String :=
  if l.isEmpty then "-" else ",".intercalate (l.map fun (n, t) => s!"{n}@{t}")

structure Parsed where
  n : Nat := 0
  t : Nat := 0
  start : Nat := 0
  limit : Limit := .none
  prog : Prog := []
  cmds : List Cmd := []
  implLines : List String := []   -- the implementation's observation lines, flat

def parseCase (c : Case) : Except String Parsed := do
  let h := words c.header
  let mut p : Parsed := { n := (kvNat h "n").getD 0, t := (kvNat h "t").getD 0, start := (kvNat h "start").getD 0 }
  for line in c.body do
    if line.startsWith "end" then continue
    if line.startsWith ">" then
      p := { p with implLines := p.implLines ++ [(line.drop 1).trimAscii.toString] }
      continue
    match words line with
    | ["builder", "max_itr", v] =>
      match v.toNat? with
      | some v => p := { p with limit := p.limit.add (.eventCount v) }
      | none => throw s!"bad line {line}"
    | ["builder", "max_time", v] =>
      match v.toNat? with
      | some v => p := { p with limit := p.limit.add (.simTime v) }
      | none => throw s!"bad line {line}"
    | ["builder", "limit", e] =>
      match parseLimit e with
      | some l => p := { p with limit := p.limit.add l }
      | none => throw s!"bad limit {e}"
    | "node" :: id :: acts =>
      match id.toNat? with
      | some id => p := { p with prog := setNode p.prog id (acts.filterMap parseAct) }
      | none => throw s!"bad line {line}"
    | ["add", time, node] =>
      match time.toNat?, node.toNat? with
      | some time, some node => p := { p with cmds := p.cmds ++ [.add time node] }
      | _, _ => throw s!"bad line {line}"
    | ["stepn", k] =>
      match k.toNat? with
      | some k => p := { p with cmds := p.cmds ++ [.stepN k] }
      | none => throw s!"bad line {line}"
    | ["until", t] =>
      match t.toNat? with
      | some t => p := { p with cmds := p.cmds ++ [.stepUntil t] }
      | none => throw s!"bad line {line}"
    | ["run"] => p := { p with cmds := p.cmds ++ [.runAll] }
    | _ => throw s!"bad line {line}"
  return p

def fuel : Nat := 200000

/-- all observation lines the model predicts for the session, plus statistics -/
def modelLines {σ : Type} (E : ES σ) (es0 : σ) (p : Parsed) : List String :=
  let (s, outs) := execCmds E p.prog fuel (build es0 p.start p.limit) p.cmds
  let body := outs.flatMap fun (os, pz) => os.map showObs ++ [showPaused pz]
  let rem := drain E fuel s.es
  body ++ [s!"fin time={s.now} count={s.itr} rem={showRem rem}"]

structure Stats where
  ties : Nat := 0
  rejects : Nat := 0
  cutInTie : Nat := 0
  addPaused : Nat := 0
  limitStop : Nat := 0
  handled : Nat := 0

def stats (p : Parsed) : Stats := Id.run do
  -- computed on the abstract run
  let mut st : Stats := {}
  let mut s := build FES.init p.start p.limit
  let mut last : Option Nat := none
  let mut stepped := false
  for c in p.cmds do
    let (s', os) := execCmd fesES p.prog fuel s c
    for o in os do
      match o with
      | .handled _ t =>
        if last == some t then st := { st with ties := st.ties + 1 }
        last := some t
        st := { st with handled := st.handled + 1 }
      | .sched _ _ false => st := { st with rejects := st.rejects + 1 }
      | _ => pure ()
    match c with
    | .add .. => if stepped then st := { st with addPaused := st.addPaused + 1 }
    | .stepN _ | .stepUntil _ =>
      stepped := true
      if FES.nextTime s'.es == some s'.now && s'.itr > 0 then st := { st with cutInTie := st.cutInTie + 1 }
    | .runAll => if FES.len s'.es > 0 then st := { st with limitStop := st.limitStop + 1 }
    s := s'
  return st

def firstDiff : List String → List String → Nat → Option (Nat × String × String)
  | [], [], _ => none
  | a :: as, b :: bs, i => if a = b then firstDiff as bs (i + 1) else some (i, a, b)
  | a :: _, [], i => some (i, a, "<missing>")
  | [], b :: _, i => some (i, "<missing>", b)

def runCase (prop : String) (c : Case) : String :=
  let id := ((words c.header)[1]?).getD "?"
  match parseCase c with
  | .error e => s!"fail {id} op=0 kind=badcase detail={e}"
  | .ok p =>
    if p.n = 0 || p.t = 0 then s!"fail {id} op=0 kind=badcase detail=n-or-t-zero" else
    let spec := modelLines fesES FES.init p
    let model := modelLines cqES (CQ.init p.n p.t) p
    match firstDiff spec p.implLines 1 with
    | some (i, s, im) => s!"fail {id} op={i} kind=reject spec=[{s}] impl=[{im}]"
    | none =>
      match firstDiff model p.implLines 1 with
      | some (i, m, im) => s!"fail {id} op={i} kind=diverge model=[{m}] impl=[{im}]"
      | none =>
        let st := stats p
        let nt :=
          if prop = "c10" then st.cutInTie > 0 || st.addPaused > 0
          else if prop = "c11" then st.limitStop > 0 && st.handled > 0
          else st.ties > 0 && (st.rejects > 0 || p.start > 0)
        s!"ok {id} nt={if nt then 1 else 0} handled={st.handled} ties={st.ties} rejects={st.rejects} cutInTie={st.cutInTie} addPaused={st.addPaused} limitStop={st.limitStop}"

def main (prop : String) (stdin : IO.FS.Stream) : IO Unit := do
  let cases ← readCases stdin
  for c in cases do
    IO.println (runCase prop c)

end Driver.C02

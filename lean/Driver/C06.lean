/-
Driver for C06: replays a scripted async module through `Exec.runSim` (the model of the repaired
`Harness::exec` the theorems of Props/C06.lean are about, with `Exec.tokioParams`) and through the specification
executor `Exec.idealSim` (budgets that never bind), and compares both with what the real des simulation logged.

  reject  : some task observed a simulated time different from the instant its awaited condition became true
            (or never ran).  When the implementation's log is the one of the single-pass model `Exec.runSim` with `single := true`
            (the code before the repairs), `tag=` names the mechanism that left the task behind:
              F4  runtime queue budget (event_interval)      F4b LocalSet tick budget (MAX_TASKS_PER_TICK)
              F4c deferred waker (yield_now / coop budget)    F4d local task woken by a runtime task after the tick
            `tag=unexplained` otherwise.
  diverge : the specification accepts the implementation's log but its global order differs from the model's, or
            the measured budgets differ from `Exec.tokioParams`.
-/
import Desverif.Model.Exec
import Driver.Common
namespace Driver.C06
open Exec Driver

/-- instruction on tags (as in the script) -/
inductive TIns | s (t : Nat) | w (k : Nat) | a (k : Nat) | y | j (t : Nat) | z (d : Nat) | u (t : Nat)
  deriving DecidableEq

def parseIns (tok : String) : Option (TIns × Nat) :=
  let (body, rep) := match tok.splitOn "*" with
    | [b, r] => (b, r.toNat?.getD 1)
    | _ => (tok, 1)
  let rep := min rep 100000
  match body.toList with
  | 'y' :: [] => some (.y, rep)
  | c :: rest =>
    match (String.ofList rest).toNat? with
    | none => none
    | some n =>
      if c = 's' then some (.s n, rep) else if c = 'w' then some (.w n, rep)
      else if c = 'a' then some (.a n, rep) else if c = 'j' then some (.j n, rep)
      else if c = 'z' then some (.z n, rep) else if c = 'u' then some (.u n, rep) else none
  | [] => none

def parseProg (toks : List String) : List TIns :=
  toks.foldr (fun tok acc => match parseIns tok with
    | some (i, n) => List.replicate n i ++ acc
    | none => acc) []

structure Script where
  tasks : Array (Nat × Kind × List TIns) := #[]
  events : Array (Nat × Bool × List TIns) := #[]
  run : Option String := none   -- the implementation's answer

def parseScript (body : List String) : Script := Id.run do
  let mut sc : Script := {}
  for line in body do
    let (lhs, rhs) := splitArrow line
    match words lhs with
    | "task" :: tag :: kind :: prog =>
      if let some t := tag.toNat? then
        sc := { sc with tasks := sc.tasks.push (t, if kind = "loc" then .loc else .rt, parseProg prog) }
    | "ev" :: tm :: prog =>
      if let some t := tm.toNat? then
        sc := { sc with events := sc.events.push (t, false, parseProg prog) }
    | "cev" :: tm :: prog =>
      if let some t := tm.toNat? then
        sc := { sc with events := sc.events.push (t, true, parseProg prog) }
    | ["run"] => sc := { sc with run := some rhs }
    | _ => pure ()
  return sc

def indexOf? (xs : List Nat) (x : Nat) : Option Nat :=
  let i := xs.idxOf x
  if i < xs.length then some i else none

def count (p : TIns → Bool) (progs : List (List TIns)) : Nat :=
  progs.foldl (fun n pr => n + (pr.filter p).length) 0

/-- the static restrictions under which the model's conditions (single waiter, counting) describe the real
primitives, see the header of harness/src/c06.rs; scripts outside are skipped -/
def wellFormed (sc : Script) : Bool := Id.run do
  let tags := sc.tasks.toList.map (·.1)
  let tprogs := sc.tasks.toList.map (·.2.2)
  let eprogs := sc.events.toList.map (·.2.2)
  let cprogs := (sc.events.toList.filter (·.2.1)).map (·.2.2)
  let all := tprogs ++ eprogs
  -- unique tags
  if tags.eraseDups.length != tags.length then return false
  -- events strictly increasing in time, handlers only spawn / wake
  let times := 0 :: sc.events.toList.map (·.1)
  if !(times.zip (times.drop 1)).all (fun (a, b) => a < b) then return false
  if count (fun i => match i with | .s _ | .w _ => false | _ => true) eprogs != 0 then return false
  -- a consuming element only wakes (it runs outside the executor: spawning there panics)
  if count (fun i => match i with | .w _ => false | _ => true) cprogs != 0 then return false
  for (_, kind, prog) in sc.tasks.toList do
    for i in prog do
      match i with
      | .s t =>
        -- spawn targets exist, are spawned once overall; local tasks are spawned from local context only
        match sc.tasks.toList.find? (·.1 == t) with
        | none => return false
        | some (_, tk, _) => if tk == .loc && kind == .rt then return false
      | _ => pure ()
  for pr in all do
    for i in pr do
      match i with
      | .s t =>
        if !tags.contains t then return false
        if count (· == .s t) all != 1 then return false
      | .a k =>
        -- a single waiting task per condition
        if ((tprogs.filter (·.contains (.a k))).length) != 1 then return false
      | .w k =>
        if k % 3 == 2 && count (· == .w k) all > 1 then return false
      | .j t =>
        -- one join per task, in the program that spawned it, after the spawn
        if count (· == .j t) all != 1 then return false
        match pr.idxOf (.s t), pr.idxOf (.j t) with
        | is, ij => if !(is < ij && ij < pr.length) then return false
      | .y | .z _ | .u _ => pure ()
  return true

structure Compiled where
  tags : List Nat
  s0 : St
  events : List Ev

def compile (sc : Script) : Compiled :=
  let tags := sc.tasks.toList.map (·.1)
  let progs := sc.tasks.toList.map (·.2.2) ++ sc.events.toList.map (·.2.2)
  let cks : List Nat := (progs.foldl (fun acc pr => pr.foldl (fun acc i => match i with
    | .w k | .a k => if acc.contains k then acc else acc ++ [k]
    | _ => acc) acc) [])
  let tr (i : TIns) : List Instr := match i with
    | .s t => match indexOf? tags t with | some x => [.spawn x] | none => []
    | .j t => match indexOf? tags t with | some x => [.join x] | none => []
    | .w k => match indexOf? cks k with | some x => [.wake x] | none => []
    | .a k => match indexOf? cks k with | some x => [.wait x] | none => []
    | .y => [.yield]
    | .z d => [.sleep d]
    | .u t => [.sleepUntil t]
  let trp (p : List TIns) : List Instr := p.foldr (fun i acc => tr i ++ acc) []
  { tags
    s0 := { tasks := sc.tasks.toList.map (fun (_, k, p) => { kind := k, prog := trp p })
            conds := cks.map (fun k => { coop := k % 3 != 2 }) }
    events := sc.events.toList.map (fun (t, c, p) => { time := t, consumed := c, prog := trp p }) }

/-- `log=1000:1,2;5000:3` -/
def parseLog (s : String) : Option (List (Nat × Nat)) :=
  if s = "-" then some [] else
  (s.splitOn ";").foldr (fun grp acc => do
    let acc ← acc
    match grp.splitOn ":" with
    | [t, tags] =>
      let t ← t.toNat?
      let tags ← (tags.splitOn ",").mapM String.toNat?
      pure (tags.map (fun g => (t, g)) ++ acc)
    | _ => none) (some [])

def showLog (l : List (Nat × Nat)) : String :=
  " ".intercalate ((l.take 12).map fun (t, g) => s!"{t}:{g}") ++ (if l.length > 12 then " .." else "")

/-- per task: the sequence of observed times -/
def perTask (tags : List Nat) (l : List (Nat × Nat)) : List (List Nat) :=
  tags.map fun g => (l.filter (·.2 == g)).map (·.1)

def firstDiff (a b : List (Nat × Nat)) : Nat := Id.run do
  let mut i := 0
  for (x, y) in a.zip b do
    if x != y then return i
    i := i + 1
  return i

def tagOf (k : Kind) (o : Phase) : String :=
  match o, k with
  | .flush, _ => "F4c"
  | .rtloop, .loc => "F4d"
  | _, .loc => "F4b"
  | _, .rt => "F4"

def runCase (c : Case) : String := Id.run do
  let h := words c.header
  let id := (h[1]?).getD "?"
  let sc := parseScript c.body
  let op := c.body.length
  if !wellFormed sc then return s!"ok {id} nt=0 skipped=1"
  match sc.run with
  | none => return s!"ok {id} nt=0 norun=1"
  | some ans =>
  let r := words ans
  let P := tokioParams
  match kvNat r "L", kvNat r "E", kvNat r "C", kvNat r "G", kv r "res", (kv r "log").bind parseLog with
  | some l, some e, some cc, some g, some res, some impl =>
    let cp := compile sc
    let tagAt (i : Nat) : Nat := (cp.tags[i]?).getD 0
    let big := measure cp.s0 + 2 * cp.s0.tasks.length + cp.events.length + 8
    -- `at_sim_start` is an `exec` of its own at t = 0 (it ticks the scheduler once)
    let evs : List Ev := { time := 0 } :: cp.events
    let fin := runSim P false big evs [] none cp.s0
    let mlogE := fin.log.reverse
    let mlog := mlogE.map fun x => (x.time, tagAt x.idx)
    let ideal := idealSim big evs cp.s0
    if !(ideal.rq.isEmpty && ideal.iq.isEmpty && ideal.lq.isEmpty && ideal.dq.isEmpty && ideal.timers.isEmpty) then
      return s!"fail {id} op={op} kind=internal what=ideal-fuel"
    let ilog := ideal.log.reverse.map fun x => (x.time, tagAt x.idx)
    let specOK := res == "ok" && perTask cp.tags impl == perTask cp.tags ilog
    let modelEq := impl == mlog
    if !specOK then
      -- does the implementation behave like the single-pass `exec` (the code before the repairs)?  then attribute
      -- the first late / never-run task of that run to its mechanism
      let fin := runSim P true big evs [] none cp.s0
      let mlogE := fin.log.reverse
      let modelEq := impl == mlogE.map fun x => (x.time, tagAt x.idx)
      let late := mlogE.find? (fun x => x.time != x.ready)
      let left : Option Entry := (fin.lq ++ fin.rq ++ fin.iq).head?
      let kindOf (i : Nat) : Kind := ((cp.s0.tasks[i]?).map (·.kind)).getD .rt
      let (tg, who, rdy, obs) : String × Nat × Nat × String := match late, left with
        | some x, _ => (tagOf (kindOf x.idx) x.origin, tagAt x.idx, x.ready, toString x.time)
        | none, some en => (tagOf en.kind en.origin, tagAt en.idx, en.ready, "never")
        | none, none => ("none", 0, 0, "-")
      if modelEq then
        return s!"fail {id} op={op} kind=reject tag={tg} task={who} ready={rdy} obs={obs} res={res}"
      else
        let d := firstDiff impl mlog
        return s!"fail {id} op={op} kind=reject tag=unexplained res={res} at={d} model=[{showLog (mlog.drop d)}] impl=[{showLog (impl.drop d)}] spec=[{showLog (ilog.drop (firstDiff impl ilog))}]"
    -- the measured budgets (probes: 2000 ready tasks, 1000 available messages) must be the model's
    if l != min P.L 2000 || e != min P.E 2000 || cc != min P.C 1000 || g != P.G then
      return s!"fail {id} op={op} kind=diverge what=budget model=L{min P.L 2000},E{min P.E 2000},C{min P.C 1000},G{P.G} impl=L{l},E{e},C{cc},G{g}"
    if !modelEq then
      let d := firstDiff impl mlog
      return s!"fail {id} op={op} kind=diverge at={d} model=[{showLog (mlog.drop d)}] impl=[{showLog (impl.drop d)}]"
    -- evidence
    let obs := mlog.length
    let ran := (cp.tags.filter fun g => mlog.any (·.2 == g)).length
    let links := (mlogE.filter fun x => x.origin == .tick || x.origin == .rtloop).length
    let timed := (mlogE.filter fun x => x.origin == .timer).length
    let handed := (mlogE.filter fun x => x.origin == .outside).length
    let burst := (mlog.map (·.1)).eraseDups.foldl (fun m t => max m (mlog.filter (·.1 == t)).length) 0
    let nt := ran ≥ 2 && links + timed + handed ≥ 1
    return s!"ok {id} nt={if nt then 1 else 0} obs={obs} tasks={ran} links={links} timerwoken={timed} handedover={handed} burst={burst} over61={if burst > 61 then 1 else 0}"
  | _, _, _, _, _, _ => return s!"fail {id} op={op} kind=badline detail={ans}"

def main (stdin : IO.FS.Stream) : IO Unit := do
  let cases ← readCases stdin
  for c in cases do
    IO.println (runCase c)

end Driver.C06

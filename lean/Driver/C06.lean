/-
Driver for C06: replays a scripted async module through `Exec.runSim` (the model of the repaired `Harness::exec`
and of the module's event loop the theorems of Props/C06.lean are about, with `Exec.tokioParams`) and judges the
history the real des simulation logged with the abstract specification `ExecSpec.accept` (Spec/ExecSpec.lean):
every record must be made by a task that is runnable at that instant, and when the records of an own event's
instant are used up no task of the module may be runnable.

  reject  : the specification rejects the implementation's history: `left-runnable task=T at=t` (T was runnable during
            the event at t but was not polled before simulated time advanced - it observes a later instant or none)
            or `not-runnable record=i` (a record that no runnable task can have made).  When the implementation's
            log is the one of the single-pass model (`Exec.runSim` with `single := true`, the code before the
            repairs), `tag=` names the mechanism:
              F4  runtime queue budget (event_interval)      F4b LocalSet tick budget (MAX_TASKS_PER_TICK)
              F4c deferred waker (yield_now / coop budget)    F4d local task woken by a runtime task after the tick
            `tag=unexplained` otherwise.
  diverge : the specification accepts the implementation's history but its global order differs from the model's, or
            the measured budgets differ from `Exec.tokioParams`.
  internal: the specification rejects the MODEL's own history (model and specification disagree).
-/
import Desverif.Model.Exec
import Desverif.Spec.ExecSpec
import Driver.Common
namespace Driver.C06
open Exec Driver

/-- instruction on tags (as in the script) -/
inductive TIns | s (t : Nat) | w (k : Nat) | a (k : Nat) | y | j (t : Nat) | z (d : Nat) | u (t : Nat) | n (k : Nat)
  | t (k d : Nat)
  deriving DecidableEq

def parseIns (tok : String) : Option (TIns × Nat) :=
  let (body, rep) := match tok.splitOn "*" with
    | [b, r] => (b, r.toNat?.getD 1)
    | _ => (tok, 1)
  let rep := min rep 1000000
  match body.toList with
  | 'y' :: [] => some (.y, rep)
  | 't' :: rest =>
    match (String.ofList rest).splitOn ":" with
    | [k, d] => match k.toNat?, d.toNat? with
      | some k, some d => some (.t k d, rep)
      | _, _ => none
    | _ => none
  | c :: rest =>
    match (String.ofList rest).toNat? with
    | none => none
    | some n =>
      if c = 's' then some (.s n, rep) else if c = 'w' then some (.w n, rep)
      else if c = 'a' then some (.a n, rep) else if c = 'j' then some (.j n, rep)
      else if c = 'z' then some (.z n, rep) else if c = 'u' then some (.u n, rep)
      else if c = 'n' then some (.n n, rep) else none
  | [] => none

def parseProg (toks : List String) : List TIns :=
  toks.foldr (fun tok acc => match parseIns tok with
    | some (i, n) => List.replicate n i ++ acc
    | none => acc) []

structure Script where
  tasks : Array (Nat × Kind × List TIns) := #[]
  events : Array (Nat × Nat × List TIns) := #[]   -- time, kind (0 ev, 1 cev, 2 xev), program
  run : Option String := none   -- the implementation's answer

def parseScript (body : List String) : Script := Id.run do
  let mut sc : Script := {}
  for line in body do
    let (lhs, rhs) := splitArrow line
    match words lhs with
    | "task" :: tag :: kind :: prog =>
      if let some t := tag.toNat? then
        sc := { sc with tasks := sc.tasks.push (t, if kind = "loc" then .loc else .rt, parseProg prog) }
    | "ev" :: tm :: prog =>
      if let some t := tm.toNat? then
        sc := { sc with events := sc.events.push (t, 0, parseProg prog) }
    | "cev" :: tm :: prog =>
      if let some t := tm.toNat? then
        sc := { sc with events := sc.events.push (t, 1, parseProg prog) }
    | "xev" :: tm :: prog =>
      if let some t := tm.toNat? then
        sc := { sc with events := sc.events.push (t, 2, parseProg prog) }
    | ["run"] => sc := { sc with run := some rhs }
    | _ => pure ()
  return sc

def indexOf? (xs : List Nat) (x : Nat) : Option Nat :=
  let i := xs.idxOf x
  if i < xs.length then some i else none

def count (p : TIns → Bool) (progs : List (List TIns)) : Nat :=
  progs.foldl (fun n pr => n + (pr.filter p).length) 0

/-- the static restrictions under which the model's conditions describe the real primitives and the scripted
program does not panic, see the header of harness/src/c06.rs; scripts outside are skipped -/
def wellFormed (sc : Script) : Bool := Id.run do
  let tags := sc.tasks.toList.map (·.1)
  let tprogs := sc.tasks.toList.map (·.2.2)
  let eprogs := (sc.events.toList.filter (·.2.1 == 0)).map (·.2.2)
  let oprogs := (sc.events.toList.filter (·.2.1 != 0)).map (·.2.2)
  let all := tprogs ++ sc.events.toList.map (·.2.2)
  -- unique tags
  if tags.eraseDups.length != tags.length then return false
  -- events strictly increasing in time; handlers only spawn / wake
  let times := 0 :: sc.events.toList.map (·.1)
  if !(times.zip (times.drop 1)).all (fun (a, b) => a < b) then return false
  if count (fun i => match i with | .s _ | .w _ | .n _ => false | _ => true) eprogs != 0 then return false
  -- a consuming element / another module only wakes (spawning outside the module's executor panics)
  if count (fun i => match i with | .w _ | .n _ => false | _ => true) oprogs != 0 then return false
  for (tag, kind, prog) in sc.tasks.toList do
    for i in prog do
      match i with
      | .s t =>
        -- local tasks are spawned from local context only
        match sc.tasks.toList.find? (·.1 == t) with
        | none => return false
        | some (_, tk, _) => if tk == .loc && kind == .rt then return false
      | .j t => if t == tag then return false
      | _ => pure ()
  for pr in all do
    for i in pr do
      match i with
      | .s t =>
        -- spawn targets exist and are spawned once overall
        if !tags.contains t then return false
        if count (· == .s t) all != 1 then return false
      | .a k =>
        -- an mpsc channel has one receiving task; semaphores and Notify any number of waiting tasks
        if k % 3 == 1 && ((tprogs.filter (·.contains (.a k))).length) != 1 then return false
      | .n k => if k % 3 != 2 then return false
      | .t k _ => if k % 3 != 2 then return false
      | .j t =>
        -- a JoinHandle is awaited once (by any task)
        if !tags.contains t then return false
        if count (· == .j t) all != 1 then return false
      | .w _ | .y | .z _ | .u _ => pure ()
  return true

structure Compiled where
  tags : List Nat
  s0 : St
  events : List Ev

def compile (sc : Script) : Compiled :=
  let tags := sc.tasks.toList.map (·.1)
  let progs := sc.tasks.toList.map (·.2.2) ++ sc.events.toList.map (·.2.2)
  let cks : List Nat := (progs.foldl (fun acc pr => pr.foldl (fun acc i => match i with
    | .w k | .a k | .n k | .t k _ => if acc.contains k then acc else acc ++ [k]
    | _ => acc) acc) [])
  let tr (i : TIns) : List Instr := match i with
    | .s t => match indexOf? tags t with | some x => [.spawn x] | none => []
    | .j t => match indexOf? tags t with | some x => [.join x] | none => []
    | .w k => match indexOf? cks k with | some x => [.wake x] | none => []
    | .a k => match indexOf? cks k with | some x => [.wait x] | none => []
    | .y => [.yield]
    | .z d => [.sleep d]
    | .u t => [.sleepUntil t]
    | .n k => match indexOf? cks k with | some x => [.notifyAll x] | none => []
    | .t k d => match indexOf? cks k with | some x => [.waitT x d] | none => []
  let trp (p : List TIns) : List Instr := p.foldr (fun i acc => tr i ++ acc) []
  { tags
    s0 := { tasks := sc.tasks.toList.map (fun (_, k, p) => { kind := k, prog := trp p })
            conds := cks.map (fun k => { coop := k % 3 != 2, cap1 := k % 3 == 2 }) }
    events := sc.events.toList.map (fun (t, c, p) =>
      { time := t, consumed := c == 1, foreign := c == 2, prog := trp p }) }

/-- `log=1000:1,2;5000:3` -/
def parseLog (s : String) : Option (List (Nat × Nat)) :=
  if s = "-" then some [] else
  (s.splitOn ";").foldr (fun grp acc => do
    let acc ← acc
    match grp.splitOn ":" with
    | [t, tags] =>
      let t ← t.toNat?
      let tags ← (tags.splitOn ",").mapM String.toNat?
      pure (tags.map (fun g => (t, g)) ++ acc)
    | _ => none) (some [])

def showLog (l : List (Nat × Nat)) : String :=
  " ".intercalate ((l.take 12).map fun (t, g) => s!"{t}:{g}") ++ (if l.length > 12 then " .." else "")

def firstDiff (a b : List (Nat × Nat)) : Nat := Id.run do
  let mut i := 0
  for (x, y) in a.zip b do
    if x != y then return i
    i := i + 1
  return i

def tagOf (k : Kind) (o : Phase) : String :=
  match o, k with
  | .flush, _ => "F4c"
  | .rtloop, .loc => "F4d"
  | _, .loc => "F4b"
  | _, .rt => "F4"

def runCase (c : Case) : String := Id.run do
  let h := words c.header
  let id := (h[1]?).getD "?"
  let sc := parseScript c.body
  let op := c.body.length
  if !wellFormed sc then return s!"ok {id} nt=0 skipped=1"
  match sc.run with
  | none => return s!"ok {id} nt=0 norun=1"
  | some ans =>
  let r := words ans
  let P := tokioParams
  match kvNat r "L", kvNat r "E", kvNat r "C", kvNat r "G", kv r "res", (kv r "log").bind parseLog with
  | some l, some e, some cc, some g, some res, some impl =>
    let cp := compile sc
    let tagAt (i : Nat) : Nat := (cp.tags[i]?).getD 0
    let big := measure cp.s0 + 2 * cp.s0.tasks.length + cp.events.length + 8
    -- `at_sim_start` is an `exec` of its own at t = 0 (it ticks the scheduler once)
    let evs : List Ev := { time := 0 } :: cp.events
    let fin := runSim P false big evs [] none cp.s0
    let mlogE := fin.log.reverse
    let mlog := mlogE.map fun x => (x.time, tagAt x.idx)
    let untag (g : Nat) : Nat := (indexOf? cp.tags g).getD cp.tags.length
    let verdict := ExecSpec.accept P big evs [] none (impl.map fun (t, g) => (t, untag g)) 0 cp.s0
    -- the specification must accept the model's own history (consistency of model and specification)
    match ExecSpec.accept P big evs [] none (mlogE.map fun x => (x.time, x.idx)) 0 cp.s0 with
    | .ok => pure ()
    | v => return s!"fail {id} op={op} kind=internal what=spec-rejects-model detail={reprStr v |>.replace "\n" " "}"
    let modelEq := impl == mlog
    if res != "ok" then return s!"fail {id} op={op} kind=reject tag=sim-error res={res}"
    match verdict with
    | .ok => pure ()
    | v =>
      -- does the implementation behave like the single-pass `exec` (the code before the repairs)?  then attribute
      -- the first late / never-run task of that run to its mechanism
      let fin1 := runSim P true big evs [] none cp.s0
      let mlog1 := fin1.log.reverse
      let single := impl == mlog1.map fun x => (x.time, tagAt x.idx)
      let late := mlog1.find? (fun x => x.time != x.ready && x.origin != .foreign)
      let left : Option Entry := (fin1.lq ++ fin1.rq ++ fin1.iq).head?
      let kindOf (i : Nat) : Kind := ((cp.s0.tasks[i]?).map (·.kind)).getD .rt
      let tg : String := if !single then "unexplained" else match late, left with
        | some x, _ => tagOf (kindOf x.idx) x.origin
        | none, some en => tagOf en.kind en.origin
        | none, none => "none"
      let what : String := match v with
        | .left t e => s!"left-runnable task={tagAt e.idx} at={t}"
        | .infeasible pos t x => s!"not-runnable record={pos} task={tagAt x} at={t}"
        | .ok => "-"
      let d := firstDiff impl mlog
      return s!"fail {id} op={op} kind=reject tag={tg} {what} model=[{showLog (mlog.drop d)}] impl=[{showLog (impl.drop d)}]"
    -- the measured budgets (probes: 2000 ready tasks, 1000 available messages) must be the model's
    if l != min P.L 2000 || e != min P.E 2000 || cc != min P.C 1000 || g != P.G then
      return s!"fail {id} op={op} kind=diverge what=budget model=L{min P.L 2000},E{min P.E 2000},C{min P.C 1000},G{P.G} impl=L{l},E{e},C{cc},G{g}"
    if !modelEq then
      let d := firstDiff impl mlog
      return s!"fail {id} op={op} kind=diverge at={d} model=[{showLog (mlog.drop d)}] impl=[{showLog (impl.drop d)}]"
    -- evidence
    let obs := mlog.length
    let ran := (cp.tags.filter fun g => mlog.any (·.2 == g)).length
    let links := (mlogE.filter fun x => x.origin == .tick || x.origin == .rtloop).length
    let timed := (mlogE.filter fun x => x.origin == .timer).length
    let handed := (mlogE.filter fun x => x.origin == .outside).length
    let foreign := (mlogE.filter fun x => x.origin == .foreign).length
    let timeouts := (sc.tasks.toList.map fun (_, _, pr) => (pr.filter fun i => match i with | .t _ _ => true | _ => false).length).foldl (· + ·) 0
    let burst := (mlog.map (·.1)).eraseDups.foldl (fun m t => max m (mlog.filter (·.1 == t)).length) 0
    let nt := ran ≥ 2 && links + timed + handed + foreign ≥ 1
    return s!"ok {id} nt={if nt then 1 else 0} obs={obs} tasks={ran} links={links} timerwoken={timed} handedover={handed} crossmodule={foreign} silentpolls={fin.silent} timeouts={timeouts} burst={burst} over61={if burst > 61 then 1 else 0}"
  | _, _, _, _, _, _ => return s!"fail {id} op={op} kind=badline detail={ans}"

def main (stdin : IO.FS.Stream) : IO Unit := do
  let cases ← readCases stdin
  for c in cases do
    IO.println (runCase c)

end Driver.C06
